------------------------------- MODULE Shapes -------------------------------
(***************************************************************************)
(* SVG 2 chapter 10: the equivalent path of every basic shape (C06), over  *)
(* exact rationals.  A shape is <<kind, params>>; EquivalentPath gives the *)
(* segment list <<kind, start, c1, c2, end>> (PathInterp vocabulary; arcs  *)
(* carry c1 = <<rx, ry, 0>>, c2 = <<0, 1>>: rotation 0, small, positive).  *)
(* A corner radius is <<"auto", 0>> (omitted), <<"abs", r>> or             *)
(* <<"pct", p>> (percentage of the rect's width for rx, height for ry).    *)
(***************************************************************************)
EXTENDS Rat, Sequences

NONE == <<>>
AUTO == <<"auto", <<0, 1>>>>
IsAuto(r) == r[1] = "auto"

\* ---- rect: used corner radii (SVG 2 10.2) ---------------------------------
RadiusValue(r, ref) == IF r[1] = "pct" THEN RDiv(RMul(r[2], ref), R(100)) ELSE r[2]
UsedRadii(w, h, rx, ry) ==
  LET gx == RadiusValue(rx, w)
      gy == RadiusValue(ry, h)
      ax == IF IsAuto(rx) THEN (IF IsAuto(ry) THEN RZero ELSE gy) ELSE gx     \* auto takes the other, both auto = 0
      ay == IF IsAuto(ry) THEN (IF IsAuto(rx) THEN RZero ELSE gx) ELSE gy
  IN <<RMin(ax, RDiv(w, R(2))), RMin(ay, RDiv(h, R(2)))>>                  \* clamped to half the side

P(x, y) == <<x, y>>
Ln(a, b) == <<"L", a, NONE, NONE, b>>
Mv(a)    == <<"M", NONE, NONE, NONE, a>>
Cl(a, b) == <<"Z", a, NONE, NONE, b>>
\* a quarter arc from a to b on the axis-aligned ellipse centred c (the centre is carried as a sixth component)
Ar(a, rx, ry, b, c) == <<"A", a, <<rx, ry, RZero>>, <<0, 1>>, b, c>>

RectPath(x, y, w, h, rx0, ry0) ==
  IF w = RZero \/ h = RZero THEN <<>>                    \* a zero dimension disables rendering
  ELSE
  LET u == UsedRadii(w, h, rx0, ry0)
      rx == u[1]  ry == u[2]
      x1 == RAdd(x, w)  y1 == RAdd(y, h)
      round == RLt(RZero, rx) /\ RLt(RZero, ry)
      p1 == P(RAdd(x, rx), y)       p2 == P(RSub(x1, rx), y)
      p3 == P(x1, RAdd(y, ry))      p4 == P(x1, RSub(y1, ry))
      p5 == P(RSub(x1, rx), y1)     p6 == P(RAdd(x, rx), y1)
      p7 == P(x, RSub(y1, ry))      p8 == P(x, RAdd(y, ry))
  IN IF round
     THEN <<Mv(p1), Ln(p1, p2), Ar(p2, rx, ry, p3, P(p2[1], p3[2])), Ln(p3, p4), Ar(p4, rx, ry, p5, P(p5[1], p4[2])),
            Ln(p5, p6), Ar(p6, rx, ry, p7, P(p6[1], p7[2])), Ln(p7, p8), Ar(p8, rx, ry, p1, P(p1[1], p8[2])), Cl(p1, p1)>>
     ELSE <<Mv(P(x, y)), Ln(P(x, y), P(x1, y)), Ln(P(x1, y), P(x1, y1)), Ln(P(x1, y1), P(x, y1)),
            Ln(P(x, y1), P(x, y)), Cl(P(x, y), P(x, y))>>

\* ---- circle / ellipse (SVG 2 10.3, 10.4): four quarter arcs from (cx+rx, cy) ------
EllipsePath(cx, cy, rx, ry) ==
  IF rx = RZero \/ ry = RZero THEN <<>>
  ELSE LET e == P(RAdd(cx, rx), cy)  s == P(cx, RAdd(cy, ry))
           w == P(RSub(cx, rx), cy)  n == P(cx, RSub(cy, ry))
           c == P(cx, cy)
       IN <<Mv(e), Ar(e, rx, ry, s, c), Ar(s, rx, ry, w, c), Ar(w, rx, ry, n, c), Ar(n, rx, ry, e, c), Cl(e, e)>>

LinePath(x1, y1, x2, y2) == <<Mv(P(x1, y1)), Ln(P(x1, y1), P(x2, y2))>>

PolyPath(pts, closed) ==
  IF pts = <<>> THEN <<>>
  ELSE <<Mv(pts[1])>> \o [i \in 1..(Len(pts) - 1) |-> Ln(pts[i], pts[i + 1])]
       \o (IF closed THEN <<Cl(pts[Len(pts)], pts[1])>> ELSE <<>>)

EquivalentPath(s) ==
  LET p == s[2] IN
  CASE s[1] = "rect"     -> RectPath(p[1], p[2], p[3], p[4], p[5], p[6])
    [] s[1] = "circle"   -> EllipsePath(p[1], p[2], p[3], p[3])
    [] s[1] = "ellipse"  -> EllipsePath(p[1], p[2], p[3], p[4])
    [] s[1] = "line"     -> LinePath(p[1], p[2], p[3], p[4])
    [] s[1] = "polyline" -> PolyPath(p, FALSE)
    [] s[1] = "polygon"  -> PolyPath(p, TRUE)
=============================================================================
