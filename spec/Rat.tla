-------------------------------- MODULE Rat --------------------------------
(* Exact rational arithmetic for TLC: a rational is a normalised pair        *)
(* <<n, d>> with d > 0 and gcd(|n|, d) = 1.  TLC integers are 32 bit and TLC *)
(* raises an error on overflow, so a wrong value can never be produced       *)
(* silently; models keep magnitudes small.                                   *)
EXTENDS Integers

IAbs(x) == IF x < 0 THEN -x ELSE x
RECURSIVE Gcd(_, _)
Gcd(a, b) == IF b = 0 THEN a ELSE Gcd(b, a % b)

Norm(n, d) == LET g == Gcd(IAbs(n), IAbs(d))
                  s == IF d < 0 THEN -1 ELSE 1
              IN <<(s * n) \div g, (s * d) \div g>>
R(n)       == <<n, 1>>
Q(n, d)    == Norm(n, d)
\* sums over the least common denominator and cross-reduced products keep intermediates small
RAdd(a, b) == LET g == Gcd(a[2], b[2]) IN
              Norm(a[1] * (b[2] \div g) + b[1] * (a[2] \div g), (a[2] \div g) * b[2])
RSub(a, b) == LET g == Gcd(a[2], b[2]) IN
              Norm(a[1] * (b[2] \div g) - b[1] * (a[2] \div g), (a[2] \div g) * b[2])
RMul(a, b) == LET g1 == Gcd(IAbs(a[1]), b[2])  g2 == Gcd(IAbs(b[1]), a[2]) IN
              IF a[1] = 0 \/ b[1] = 0 THEN <<0, 1>>
              ELSE <<(a[1] \div g1) * (b[1] \div g2), (a[2] \div g2) * (b[2] \div g1)>>
RDiv(a, b) == RMul(a, IF b[1] < 0 THEN <<-b[2], -b[1]>> ELSE <<b[2], b[1]>>)
RNeg(a)    == <<-a[1], a[2]>>
\* (compared over the least common denominator: the plain cross product overflows TLC's 32-bit integers for 2^-6 .. 2^14 sizes)
RLt(a, b)  == LET g == Gcd(a[2], b[2]) IN a[1] * (b[2] \div g) < b[1] * (a[2] \div g)
RLe(a, b)  == LET g == Gcd(a[2], b[2]) IN a[1] * (b[2] \div g) <= b[1] * (a[2] \div g)
RMin(a, b) == IF RLe(a, b) THEN a ELSE b
RMax(a, b) == IF RLe(a, b) THEN b ELSE a
RAbs(a)    == <<IAbs(a[1]), a[2]>>
RZero == <<0, 1>>
ROne  == <<1, 1>>
IsRat(a) == a[2] > 0 /\ Gcd(IAbs(a[1]), a[2]) = 1
=============================================================================
