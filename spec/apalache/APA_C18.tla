------------------------------ MODULE APA_C18 ------------------------------
(***************************************************************************)
(* Unbounded check of the Alias frame condition (C18) with Apalache: the    *)
(* TLC model bounds the history length; here Counts is shown inductive      *)
(* (IndInit => Counts, Counts /\ Next => Counts') and Independent is        *)
(* checked as an action invariant from an arbitrary state satisfying the    *)
(* inductive invariant - so both hold for histories of every length.        *)
(***************************************************************************)
EXTENDS Integers, Sequences, Apalache

VARIABLES
  \* @type: Str;
  kind,
  \* @type: Str;
  op,
  \* @type: Seq(<<Str, Str>>);
  hist,
  \* @type: Int;
  vx,
  \* @type: Int;
  vy

Kinds == {"Point", "Matrix", "Color", "Length", "Move", "Line", "Close", "QuadraticBezier",
          "CubicBezier", "Arc", "Path", "PathT", "Subpath", "Rect", "RRect", "Circle", "Ellipse",
          "SimpleLine", "Polyline", "Polygon", "Group", "GroupNested", "GroupMixed", "Text", "Image",
          "RectLen", "CircleLen",       \* shapes whose position is still an unrendered Length (e.g. x="10%")
          "TextLen", "ImageLen", "MatrixLen"}   \* text, image and matrix whose position / translation is a Length
Segments == {"Move", "Line", "Close", "QuadraticBezier", "CubicBezier", "Arc"}
Shapes   == {"Path", "PathT", "Rect", "RRect", "Circle", "Ellipse", "SimpleLine", "Polyline", "Polygon"}
LenShapes == {"RectLen", "CircleLen"}      \* cannot be decomposed before they are rendered: only copy and * apply
Groups   == {"Group", "GroupNested", "GroupMixed"}
AllOps   == {"copy", "mul", "abs", "topath", "inv", "matmul", "add", "radd", "mulid", "pathadd", "addpath", "subadd", "addsub", "pathiadd", "pathaddview"}
OpsOf(k) ==
  {"copy"} \cup
  (IF k \in Segments \cup Shapes \cup LenShapes \cup Groups \cup {"Point", "Matrix", "Text", "Image", "Subpath", "TextLen", "ImageLen"} THEN {"mul"} ELSE {}) \cup
  (IF k \in Shapes \cup {"Text", "Image"} THEN {"abs"} ELSE {}) \cup
  (IF k \in Shapes \cup {"Subpath"} THEN {"topath"} ELSE {}) \cup
  (IF k = "Matrix" THEN {"inv", "matmul"} ELSE {}) \cup
  (IF k \in {"Path", "PathT", "Point", "Length"} \cup Segments THEN {"add"} ELSE {}) \cup
  (IF k \in {"Path", "PathT"} THEN {"radd"} ELSE {}) \cup
  (IF k \in Segments THEN {"pathadd", "addpath", "subadd", "addsub"} ELSE {}) \cup
  (IF k \in {"Path", "PathT"} THEN {"pathadd", "pathiadd", "pathaddview"} ELSE {}) \cup                                   \* Path + x, x + Path (x a segment)                                      \* "path data" + x
  (IF k \in Segments \cup Shapes \cup Groups \cup {"Point", "Text", "Image", "Subpath"} THEN {"mulid"} ELSE {})   \* x * identity
ResultKind(k, o) ==
  IF o = "topath" THEN "Path"
  ELSE IF o \in {"add", "pathadd", "addpath", "addsub"} /\ k \in Segments THEN "Path"
  ELSE IF o = "subadd" THEN "Subpath"
  ELSE IF o \in {"pathadd", "pathiadd", "pathaddview"} THEN "Path"
  ELSE IF o \in {"mul", "mulid", "copy", "abs"} /\ k = "Subpath" THEN "Subpath"
  ELSE k
AllMuts == {"setx", "imul", "seta", "post_translate", "reset", "imatmul", "setred", "setopacity", "iadd", "setamount", "imul_num",
            "setend", "setstart", "setpt", "reify", "paint", "setfill", "sw", "tredit", "values", "append", "delete", "setitem",
            "setid", "reverse", "iadd_str", "setgeom", "scalegeom", "ptappend", "childedit", "childtredit", "settext", "seturl", "vbedit"}
MutsOf(k) ==
  IF k = "Point" THEN {"setx", "imul"}
  ELSE IF k = "Matrix" THEN {"seta", "post_translate", "reset", "imatmul"}
  ELSE IF k = "Color" THEN {"setred", "setopacity"}
  ELSE IF k = "Length" THEN {"iadd", "setamount", "imul_num"}
  ELSE IF k \in Segments THEN {"setend", "imul", "setstart"}
  ELSE IF k \in {"Path", "PathT"} THEN {"setpt", "imul", "reify", "paint", "setfill", "sw", "tredit", "values", "append",
                                        "delete", "setitem", "setid", "reverse", "iadd_str"}
  ELSE IF k = "Subpath" THEN {"setpt", "imul", "reverse"}
  ELSE IF k \in {"Rect", "RRect", "Circle", "Ellipse", "SimpleLine"} THEN
                       {"setgeom", "imul", "reify", "paint", "setfill", "sw", "tredit", "values", "setid"}
  ELSE IF k \in LenShapes THEN {"setgeom", "scalegeom", "imul", "reify", "paint", "setfill", "sw", "tredit", "values", "setid"}
  ELSE IF k = "TextLen" THEN {"scalegeom", "imul", "values", "tredit"}
  ELSE IF k = "ImageLen" THEN {"scalegeom", "imul", "values", "tredit", "vbedit"}
  ELSE IF k = "MatrixLen" THEN {"scalegeom", "post_translate", "seta"}
  ELSE IF k \in {"Polyline", "Polygon"} THEN {"setpt", "ptappend", "imul", "reify", "paint", "sw", "tredit", "values"}
  ELSE IF k \in Groups THEN {"imul", "reify", "values", "append", "delete", "childedit", "childtredit", "setid"}
  ELSE IF k = "Text" THEN {"imul", "reify", "paint", "settext", "values", "tredit"}
  ELSE {"imul", "values", "seturl", "tredit", "vbedit"}

Init == /\ kind \in Kinds /\ op \in OpsOf(kind)
        /\ hist = <<>> /\ vx = 0 /\ vy = 0

Mut(side, m) ==
  /\ m \in MutsOf(IF side = "x" THEN kind ELSE ResultKind(kind, op))
  /\ hist' = Append(hist, <<side, m>>)
  /\ IF side = "x" THEN vx' = vx + 1 /\ vy' = vy ELSE vy' = vy + 1 /\ vx' = vx
  /\ UNCHANGED <<kind, op>>

Next == \E side \in {"x", "y"}, m \in AllMuts : Mut(side, m)

\* inductive invariant (type correctness + Counts)
IndInv == /\ kind \in Kinds /\ op \in OpsOf(kind)
          /\ vx >= 0 /\ vy >= 0
          /\ vx + vy = Len(hist)
\* arbitrary state satisfying the invariant (histories of every length up to the generator bound are representative:
\* the step does not inspect the history's contents)
IndInit == /\ kind \in Kinds /\ op \in OpsOf(kind)
           /\ hist = Gen(6)
           /\ vx \in 0..6 /\ vy \in 0..6
           /\ vx + vy = Len(hist)
\* the frame condition as an action invariant: a step that appends a mutation of one side leaves the other side's version alone
Independent ==
  LET last == hist'[Len(hist')] IN
  /\ (last[1] = "x" => vy' = vy)
  /\ (last[1] = "y" => vx' = vx)
\* negative control for the tooling: this is NOT an invariant (a mutation of x does bump vx); Apalache must refute it
Control == vx' = vx
=============================================================================
