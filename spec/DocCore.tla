------------------------------ MODULE DocCore ------------------------------
(***************************************************************************)
(* The SVG document walker (C03, C10, C14, C20): a document is a sequence  *)
(* of element tokens in document order, containers closed by an "end"      *)
(* token.  Render folds the sequence over a stack of inherited contexts    *)
(* exactly as SVG defines rendering: accumulated transform (CTM), nearest  *)
(* viewport size (for percentages), display state, inherited paint; use    *)
(* elements render the referenced element's subtree in the use's context.  *)
(*                                                                         *)
(* token  <<tag, id, tf, disp, geo, paint>>                                *)
(*   tag   "svg" "g" "defs" "use" "rect" "circle" "ellipse" "line"         *)
(*         "polyline" "polygon" "path" | "end"                             *)
(*   id    "" or an identifier                                             *)
(*   tf    index into the transform table (0 = no transform attribute)     *)
(*   disp  TRUE iff display="none" on the element                          *)
(*   geo   geometry attributes (see below), lengths as <<kind, value>>:    *)
(*         <<"none", 0>> omitted, <<"abs", r>> user units, <<"pct", p>>    *)
(*   paint presentation attributes (DocPaint), <<>> when not modelled      *)
(* context <<ctm, vpw, vph, hidden, paint, vchain>>  (vchain = the product *)
(*         of the enclosing viewport transforms alone)                     *)
(* rendered shape <<kind, geometry (PathOps abstraction, user space),      *)
(*                  ctm, paint, id, vchain>>                               *)
(***************************************************************************)
EXTENDS Affine
SH == INSTANCE Shapes
VP == INSTANCE Viewport
PO == INSTANCE PathOps

NoLen == <<"none", RZero>>
Len0(l, ref, dflt) == CASE l[1] = "none" -> dflt [] l[1] = "abs" -> l[2] [] l[1] = "pct" -> RDiv(RMul(l[2], ref), R(100))

Containers == {"svg", "g", "defs"}
ShapeTags  == {"rect", "circle", "ellipse", "line", "polyline", "polygon", "path"}

\* ---- tables supplied by the model (constants of the instantiating module) ----
CONSTANTS TF(_),          \* transform table: index -> affine map (TF(0) = Id)
          PathGeo(_),     \* path table: index -> segment list of a <path> element's data
          PaintOf(_, _, _)  \* paint cascade: PaintOf(parent paint context, token, ctm) -> <<child paint context, shape paint>>

\* ---- geometry of one shape element in its own user space ----------------------
ShapeSegs(tok, vpw, vph) ==
  LET g == tok[5] IN
  CASE tok[1] = "rect" ->
         SH!RectPath(Len0(g[1], vpw, RZero), Len0(g[2], vph, RZero), Len0(g[3], vpw, RZero), Len0(g[4], vph, RZero),
                     IF g[5][1] = "none" THEN SH!AUTO ELSE <<"abs", Len0(g[5], vpw, RZero)>>,
                     IF g[6][1] = "none" THEN SH!AUTO ELSE <<"abs", Len0(g[6], vph, RZero)>>)
    [] tok[1] = "circle"  -> SH!EllipsePath(Len0(g[1], vpw, RZero), Len0(g[2], vph, RZero), Len0(g[3], vpw, RZero), Len0(g[3], vpw, RZero))
    [] tok[1] = "ellipse" -> SH!EllipsePath(Len0(g[1], vpw, RZero), Len0(g[2], vph, RZero), Len0(g[3], vpw, RZero), Len0(g[4], vph, RZero))
    [] tok[1] = "line"    -> SH!LinePath(Len0(g[1], vpw, RZero), Len0(g[2], vph, RZero), Len0(g[3], vpw, RZero), Len0(g[4], vph, RZero))
    [] tok[1] = "polyline" -> SH!PolyPath(g, FALSE)
    [] tok[1] = "polygon"  -> SH!PolyPath(g, TRUE)
    [] tok[1] = "path"     -> PathGeo(g[1])

IndexOfId(doc, id) ==
  LET s == {i \in 1..Len(doc) : doc[i][2] = id /\ doc[i][1] # "end"} IN
  IF id = "" \/ s = {} THEN 0 ELSE CHOOSE i \in s : \A j \in s : i <= j

\* viewport established by an svg element: <<transform applied to its content, child vpw, child vph, renders?>>
SvgViewport(g, vpw, vph, isroot, callerW, callerH) ==
  LET vb   == g[5]
      refw == IF isroot THEN (IF callerW # <<>> THEN callerW ELSE IF vb # <<>> THEN vb[3] ELSE R(1000)) ELSE vpw
      refh == IF isroot THEN (IF callerH # <<>> THEN callerH ELSE IF vb # <<>> THEN vb[4] ELSE R(1000)) ELSE vph
      ew == Len0(g[3], refw, refw)                       \* width defaults to 100%
      eh == Len0(g[4], refh, refh)
      ex == IF isroot THEN RZero ELSE Len0(g[1], vpw, RZero)   \* x, y have no effect on the outermost svg
      ey == IF isroot THEN RZero ELSE Len0(g[2], vph, RZero)
  IN IF ew = RZero \/ eh = RZero THEN <<Id, ew, eh, FALSE>>
     ELSE IF vb = <<>> THEN <<Translate(ex, ey), ew, eh, TRUE>>
     ELSE IF vb[3] = RZero \/ vb[4] = RZero THEN <<Id, ew, eh, FALSE>>
     ELSE LET t == VP!Equivalent(<<ex, ey, ew, eh>>, vb, g[6][1], g[6][2]) IN
          <<<<t[1], RZero, RZero, t[2], t[3], t[4]>>, vb[3], vb[4], TRUE>>

RECURSIVE RenderElem(_, _, _, _, _), RenderSeq(_, _, _, _, _), SkipSeq(_, _)
\* index just after the "end" that closes the sequence starting at i
SkipSeq(doc, i) ==
  IF i > Len(doc) THEN i
  ELSE IF doc[i][1] = "end" THEN i + 1
  ELSE IF doc[i][1] \in Containers THEN SkipSeq(doc, SkipSeq(doc, i + 1))
  ELSE SkipSeq(doc, i + 1)

\* cfg = <<callerW, callerH, caller transform index>>;  budget bounds use recursion (a cycle renders nothing further)
RenderElem(doc, i, ctx, cfg, budget) ==
  LET tok    == doc[i]
      tag    == tok[1]
      hidden == ctx[4] \/ tok[4]
      ctm0   == Then(TF(tok[3]), ctx[1])
      pp     == PaintOf(ctx[5], tok, ctm0)
  IN
  IF tag \in {"g", "defs"} THEN
       RenderSeq(doc, i + 1, <<ctm0, ctx[2], ctx[3], hidden \/ tag = "defs", pp[1], ctx[6]>>, cfg, budget)
  ELSE IF tag = "svg" THEN
       LET v == SvgViewport(tok[5], ctx[2], ctx[3], i = 1, cfg[1], cfg[2]) IN
       RenderSeq(doc, i + 1, <<Then(v[1], ctm0), v[2], v[3], hidden \/ ~v[4], pp[1], Then(v[1], ctx[6])>>, cfg, budget)
  ELSE IF tag = "use" THEN
       LET k == IndexOfId(doc, tok[5][1])
           cu == Then(Translate(Len0(tok[5][2], ctx[2], RZero), Len0(tok[5][3], ctx[3], RZero)), ctm0)
       IN <<i + 1, IF k = 0 \/ budget = 0 THEN <<>>
                   ELSE RenderElem(doc, k, <<cu, ctx[2], ctx[3], hidden, pp[1], ctx[6]>>, cfg, budget - 1)[2]>>
  ELSE IF tag \notin ShapeTags THEN <<i + 1, <<>>>>      \* image, text, ...: a leaf that contributes no shape
  ELSE \* a shape
       LET segs == ShapeSegs(tok, ctx[2], ctx[3]) IN
       <<i + 1, IF hidden \/ segs = <<>> THEN <<>>
                ELSE <<<<tag, PO!Geometry(segs), ctm0, pp[2], tok[2], ctx[6]>>>>>>

RenderSeq(doc, i, ctx, cfg, budget) ==
  IF i > Len(doc) THEN <<i, <<>>>>
  ELSE IF doc[i][1] = "end" THEN <<i + 1, <<>>>>
  ELSE LET r == RenderElem(doc, i, ctx, cfg, budget)
           s == RenderSeq(doc, r[1], ctx, cfg, budget)
       IN <<s[1], r[2] \o s[2]>>

\* the whole document: token 1 is the root svg
RenderDoc(doc, cfg, paint0) ==
  RenderElem(doc, 1, <<TF(cfg[3]), R(0), R(0), FALSE, paint0, Id>>, cfg, 8)[2]

\* ---- well-formedness of a token sequence --------------------------------------
RECURSIVE DepthAt(_, _)
DepthAt(doc, i) == IF i = 0 THEN 0
                   ELSE DepthAt(doc, i - 1) + (IF doc[i][1] \in Containers THEN 1 ELSE IF doc[i][1] = "end" THEN -1 ELSE 0)
Balanced(doc) == doc # <<>> /\ doc[1][1] = "svg" /\ DepthAt(doc, Len(doc)) = 0
                 /\ \A i \in 1..(Len(doc) - 1) : DepthAt(doc, i) > 0
=============================================================================
