------------------------------ MODULE DocPaint ------------------------------
(***************************************************************************)
(* The SVG / CSS paint cascade and inheritance (C14).                      *)
(*                                                                         *)
(* paint context  <<fill, stroke, stroke-width, color, fill-opacity,       *)
(*                  stroke-opacity, sheet>>  (sheet = the document's style *)
(*                  rules, carried unchanged)                              *)
(* token paint    <<attrs, classes, inline>> : presentation attributes and *)
(*                inline style as sequences of <<property, value>>,        *)
(*                classes a sequence of class names                        *)
(* rule           <<selector kind, selector argument, declarations>>       *)
(*                kind "*" | "type" | "class" | "typeclass" | "id"         *)
(*                                                                         *)
(* Cascade (CSS 2.1 section 6.4 restricted to author rules, SVG 1.1 6.4):  *)
(* inline style > style rules (by specificity, then order) > presentation  *)
(* attribute; a property not declared on the element is inherited.         *)
(***************************************************************************)
EXTENDS Rat, Sequences

Spec(kind) == CASE kind = "id" -> 100 [] kind = "typeclass" -> 11 [] kind = "class" -> 10 [] kind = "type" -> 1 [] kind = "*" -> 0

InSeq(x, s) == \E i \in 1..Len(s) : s[i] = x
Matches(rule, tok) ==
  CASE rule[1] = "*" -> TRUE
    [] rule[1] = "type" -> rule[2] = tok[1]
    [] rule[1] = "class" -> InSeq(rule[2], tok[6][2])
    [] rule[1] = "typeclass" -> rule[2][1] = tok[1] /\ InSeq(rule[2][2], tok[6][2])
    [] rule[1] = "id" -> tok[2] # "" /\ rule[2] = tok[2]

\* last declaration of property p in a declaration list, or <<>>
LastDecl(decls, p) ==
  LET s == {i \in 1..Len(decls) : decls[i][1] = p} IN
  IF s = {} THEN <<>> ELSE <<decls[CHOOSE i \in s : \A j \in s : j <= i][2]>>

\* the winning style-rule declaration of p for the element, or <<>>
RuleDecl(sheet, tok, p) ==
  LET c == {i \in 1..Len(sheet) : Matches(sheet[i], tok) /\ LastDecl(sheet[i][3], p) # <<>>} IN
  IF c = {} THEN <<>>
  ELSE LET w == CHOOSE i \in c : \A j \in c :
                   Spec(sheet[j][1]) < Spec(sheet[i][1]) \/ (Spec(sheet[j][1]) = Spec(sheet[i][1]) /\ j <= i)
       IN LastDecl(sheet[w][3], p)

\* cascaded value of p on the element: <<v>> or <<>> (not declared: inherit)
Cascaded(sheet, tok, p) ==
  IF tok[6] = <<>> THEN <<>>
  ELSE IF LastDecl(tok[6][3], p) # <<>> THEN LastDecl(tok[6][3], p)
  ELSE IF RuleDecl(sheet, tok, p) # <<>> THEN RuleDecl(sheet, tok, p)
  ELSE LastDecl(tok[6][1], p)

Val(sheet, tok, p, inherited) == LET c == Cascaded(sheet, tok, p) IN IF c = <<>> THEN inherited ELSE c[1]

\* PaintOf(parent context, token, ctm) = <<context for the children, paint of the element itself>>
\* shape paint = <<fill, fill-opacity, stroke, stroke-opacity, stroke-width, |det ctm|, vector-effect>>
\* vector-effect is not inherited (SVG 2, 13.1): only the element's own declaration counts; with
\* "non-scaling-stroke" the stroke is scaled by the enclosing viewport transforms alone (DocCore's vchain)
Cascade(pc, tok, ctm) ==
  LET sheet == pc[7]
      color == Val(sheet, tok, "color", pc[4])
      f0 == Val(sheet, tok, "fill", pc[1])
      s0 == Val(sheet, tok, "stroke", pc[2])
      fill == IF f0 = "currentColor" THEN color ELSE f0
      strk == IF s0 = "currentColor" THEN color ELSE s0
      sw == Val(sheet, tok, "stroke-width", pc[3])
      fo == Val(sheet, tok, "fill-opacity", pc[5])
      so == Val(sheet, tok, "stroke-opacity", pc[6])
      det == RAbs(RSub(RMul(ctm[1], ctm[4]), RMul(ctm[3], ctm[2])))
      ve == Val(sheet, tok, "vector-effect", "none")
  IN << <<fill, strk, sw, color, fo, so, sheet>>, <<fill, fo, strk, so, sw, det, ve>> >>

\* defaults: fill black, stroke none, width 1, opacities 1; color = the caller's
Paint0(callerColor, sheet) == <<"black", "none", R(1), callerColor, R(1), R(1), sheet>>
=============================================================================
