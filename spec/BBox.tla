-------------------------------- MODULE BBox --------------------------------
(***************************************************************************)
(* Bounding boxes (C08).                                                   *)
(*                                                                         *)
(* Beziers.  A bounding box is per axis, so the specification works on the *)
(* one-dimensional control tuple a = <<a0, .., an>> (integers).  The curve *)
(* is evaluated EXACTLY at k/N by integer de Casteljau (values scaled by   *)
(* N^n); with K a bound on |B''| the true minimum lies in                  *)
(*      [ minsample - K/(8 N^2) , minsample ]                              *)
(* so any correct box side lies in that bracket: it contains every sample  *)
(* and is touched by the curve within eps = K/(8 N^2).                     *)
(*                                                                         *)
(* Arcs.  For the ellipse c + u cos(th) + v sin(th) (u, v the rotated      *)
(* semi-axes, rational) the x-extreme parameter has direction (u1, v1) and *)
(* the y-extreme (u2, v2); whether it lies inside the swept interval is    *)
(* decided by sign tests of rational cross products, the extreme value is  *)
(* c +- sqrt(u_i^2 + v_i^2), carried as its exact square.                  *)
(***************************************************************************)
EXTENDS Rat, Sequences

\* ---- Beziers -----------------------------------------------------------------
N == 128
\* N^n * B(k/N) for control values a (n = Len(a) - 1 in {2, 3})
Sample(a, k) ==
  LET j == N - k IN
  IF Len(a) = 3 THEN a[1] * j * j + 2 * a[2] * k * j + a[3] * k * k
  ELSE a[1] * j * j * j + 3 * a[2] * k * j * j + 3 * a[3] * k * k * j + a[4] * k * k * k
Denom(a) == IF Len(a) = 3 THEN N * N ELSE N * N * N
RECURSIVE MinS(_, _, _)
MinS(a, k, m) == IF k > N THEN m ELSE MinS(a, k + 1, IF Sample(a, k) < m THEN Sample(a, k) ELSE m)
RECURSIVE MaxS(_, _, _)
MaxS(a, k, m) == IF k > N THEN m ELSE MaxS(a, k + 1, IF Sample(a, k) > m THEN Sample(a, k) ELSE m)
\* bound on |B''|
Curv(a) == IF Len(a) = 3 THEN 2 * IAbs(a[1] - 2 * a[2] + a[3])
           ELSE 6 * (IF IAbs(a[1] - 2 * a[2] + a[3]) > IAbs(a[2] - 2 * a[3] + a[4])
                     THEN IAbs(a[1] - 2 * a[2] + a[3]) ELSE IAbs(a[2] - 2 * a[3] + a[4]))
\* everything over the common denominator D = 8 * Denom(a), as integers (no rational normalisation: 32-bit safe):
\* eps = Curv / (8 N^2)  =>  eps * D = Curv * Denom / N^2
EpsNum(a) == IF Len(a) = 3 THEN Curv(a) ELSE Curv(a) * N
\* <<lowest admissible min, highest admissible min, lowest admissible max, highest admissible max, D>>
Bracket(a) ==
  LET mn == 8 * MinS(a, 0, Sample(a, 0))
      mx == 8 * MaxS(a, 0, Sample(a, 0))
  IN <<mn - EpsNum(a), mn, mx, mx + EpsNum(a), 8 * Denom(a)>>

\* ---- arcs --------------------------------------------------------------------
\* angles are direction vectors <<x, y>> (any positive multiple of <<cos, sin>>)
Cross(a, b) == RSub(RMul(a[1], b[2]), RMul(a[2], b[1]))
Dot(a, b)   == RAdd(RMul(a[1], b[1]), RMul(a[2], b[2]))
\* rotate direction a back by the unit angle b : direction of (a - b)
DSub(a, b)  == <<Dot(a, b), Cross(b, a)>>
\* is direction d (an angle measured from 0, anticlockwise positive) within [0, e] for a unit angle e in (0, 360)?
Upper(d)    == RLt(RZero, d[2]) \/ (d[2] = RZero /\ RLt(RZero, d[1]))      \* angle in [0, 180)
Within(d, e) ==
  IF d[2] = RZero /\ RLt(RZero, d[1]) THEN TRUE                            \* angle 0
  ELSE IF Upper(d) = Upper(e) THEN RLe(RZero, Cross(d, e))                 \* same half: d before e
  ELSE Upper(d)                                                            \* d in [0,180), e in [180,360)
\* the arc: centre c, semi-axis vectors u, v, start angle th0 (unit), extent e (unit, in (0,360)), dir, full = at least a turn
InSweep(dirvec, th0, e, dir, full) ==
  full \/ (IF dir = 1 THEN Within(DSub(dirvec, th0), e) ELSE Within(DSub(th0, dirvec), e))   \* for dir=-1 measure clockwise

ArcPt(c, u, v, th) == <<RAdd(c[1], RAdd(RMul(u[1], th[1]), RMul(v[1], th[2]))),
                        RAdd(c[2], RAdd(RMul(u[2], th[1]), RMul(v[2], th[2])))>>
AAdd(a, b) == <<RSub(RMul(a[1], b[1]), RMul(a[2], b[2])), RAdd(RMul(a[2], b[1]), RMul(a[1], b[2]))>>
ASubU(a, b) == <<RAdd(RMul(a[1], b[1]), RMul(a[2], b[2])), RSub(RMul(a[2], b[1]), RMul(a[1], b[2]))>>

\* one side of the box along axis i (1 = x, 2 = y), sign s (+1 = max side, -1 = min side):
\* <<"sq", centre coordinate, sign, squared half extent>>  if the extreme point of the ellipse is on the arc,
\* <<"eq", value>>  (the better of the two end points) otherwise
ArcSide(c, u, v, th0, e, dir, full, i, s) ==
  LET dirvec == <<RMul(R(s), u[i]), RMul(R(s), v[i])>>          \* parameter direction of the extreme point
      p0 == ArcPt(c, u, v, th0)
      p1 == ArcPt(c, u, v, IF dir = 1 THEN AAdd(th0, e) ELSE ASubU(th0, e))
      w2 == RAdd(RMul(u[i], u[i]), RMul(v[i], v[i]))
  IN IF InSweep(dirvec, th0, e, dir, full) THEN <<"sq", c[i], s, w2>>
     ELSE <<"eq", IF s = 1 THEN RMax(p0[i], p1[i]) ELSE RMin(p0[i], p1[i]), 0, RZero>>
ArcBox(c, u, v, th0, e, dir, full) ==
  <<ArcSide(c, u, v, th0, e, dir, full, 1, -1), ArcSide(c, u, v, th0, e, dir, full, 2, -1),
    ArcSide(c, u, v, th0, e, dir, full, 1, 1),  ArcSide(c, u, v, th0, e, dir, full, 2, 1)>>

\* ---- boxes of containers -----------------------------------------------------
Union(b1, b2) == <<RMin(b1[1], b2[1]), RMin(b1[2], b2[2]), RMax(b1[3], b2[3]), RMax(b1[4], b2[4])>>
Grow(b, d)    == <<RSub(b[1], d), RSub(b[2], d), RAdd(b[3], d), RAdd(b[4], d)>>
=============================================================================
