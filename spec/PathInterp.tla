--------------------------- MODULE PathInterp ---------------------------
(***************************************************************************)
(* The SVG path-data interpreter as a state machine: the variables and     *)
(* the step of the machine; the semantics of one command (Exec, Conforms)  *)
(* live in the constant module PathSem so that trace specifications and    *)
(* other modules can reuse them without these variables.                   *)
(***************************************************************************)
EXTENDS PathSem

VARIABLES cur, zp, ctl, deg, segs, hist
vars == <<cur, zp, ctl, deg, segs, hist>>

Init == cur = NONE /\ zp = NONE /\ ctl = NONE /\ deg = 0 /\ segs = <<>> /\ hist = <<>>

Do(c) ==
  /\ Conforms(cur, hist, c)
  /\ LET r == Exec(<<cur, zp, ctl, deg, segs>>, c) IN
       cur' = r[1] /\ zp' = r[2] /\ ctl' = r[3] /\ deg' = r[4] /\ segs' = r[5]
  /\ hist' = Append(hist, c)

(***************************************************************************)
(* The property, as invariants of the specification                        *)
(***************************************************************************)
\* every segment starts where its predecessor ended (a move has no start)
Connected == \A i \in 2..Len(segs) : segs[i][1] # "M" => segs[i][2] = segs[i - 1][5]
\* start of the sub-path segment i belongs to: end of the nearest move at or before i
SubStart(i) == LET ms == {j \in 1..i : segs[j][1] = "M"} IN
               IF ms = {} THEN NONE ELSE segs[CHOOSE j \in ms : \A k \in ms : k <= j][5]
CloseReturns == \A i \in 1..Len(segs) : segs[i][1] = "Z" => segs[i][5] = SubStart(i)
\* one segment per drawn command (+1 for each completing close)
Count == Len(segs) = Len(hist) + Len(SelectSeq(hist, LAMBDA c : c[4]))

(***************************************************************************)
(* C17: the interpreter state is a function of the stored segments         *)
(***************************************************************************)
RecCur == IF segs = <<>> THEN NONE ELSE segs[Len(segs)][5]
RecZp  == IF segs = <<>> THEN NONE ELSE SubStart(Len(segs))
RecCtl == IF segs = <<>> THEN <<NONE, 0>>
          ELSE LET g == segs[Len(segs)] IN
               CASE g[1] = "C" -> <<g[4], 3>> [] g[1] = "Q" -> <<g[3], 2>>
                 [] OTHER -> <<NONE, 0>>
Reconstruct == cur = RecCur /\ zp = RecZp /\ <<ctl, deg>> = RecCtl
=============================================================================
