------------------------------ MODULE MC_C04 ------------------------------
(* C04.  mode "list": transform lists of <= MaxLen functions, val = their   *)
(* denotation.  mode "ops": a mutable matrix driven by pre_/post_           *)
(* operations, inversion, multiplication and reset, val = its value.        *)
EXTENDS TransformList, TLC
CONSTANTS MaxLen, Full
VARIABLES mode, hist, val, img     \* img = image of the probe point P0 under val
vars == <<mode, hist, val, img>>

I(n) == Q(n, 1)
FuncsCore == {
  <<"matrix", <<I(1), I(2), I(3), I(4), I(5), I(6)>>, <<>>>>,
  <<"matrix", <<I(0), I(1), I(-1), I(0), I(2), I(-3)>>, <<>>>>,
  <<"translate", <<I(3), I(-2)>>, <<>>>>,
  <<"translate", <<I(5)>>, <<>>>>,
  <<"translatex", <<I(4)>>, <<>>>>,
  <<"translatey", <<I(-3)>>, <<>>>>,
  <<"scale", <<I(2)>>, <<>>>>,
  <<"scale", <<I(2), I(-3)>>, <<>>>>,
  <<"scalex", <<I(-1)>>, <<>>>>,
  <<"scaley", <<Q(1, 2)>>, <<>>>>,
  <<"rotate", <<>>, <<1>>>>,
  <<"rotate", <<>>, <<4>>>>,
  <<"rotate", <<I(3), I(-2)>>, <<1>>>>,
  <<"rotate", <<I(5), I(0)>>, <<5>>>>,
  <<"skewx", <<>>, <<8>>>>,
  <<"skewy", <<>>, <<4>>>>,
  <<"skew", <<>>, <<8, 4>>>>,
  <<"skew", <<>>, <<8>>>>,
  \* functions whose value is the identity
  <<"rotate", <<>>, <<7>>>>, <<"translate", <<I(0), I(0)>>, <<>>>> }
FuncsMore == {
  <<"matrix", <<I(2), I(0), I(0), I(2), I(0), I(0)>>, <<>>>>,
  <<"translate", <<Q(1, 2), Q(-7, 2)>>, <<>>>>,
  <<"scale", <<I(-1), I(1)>>, <<>>>>,
  <<"scale", <<Q(3, 2)>>, <<>>>>,
  <<"rotate", <<>>, <<2>>>>,
  <<"rotate", <<>>, <<3>>>>,
  <<"rotate", <<>>, <<6>>>>,
  <<"rotate", <<>>, <<9>>>>,
  <<"rotate", <<I(0), I(7)>>, <<2>>>>,
  <<"skewx", <<>>, <<5>>>>,
  <<"skewy", <<>>, <<8>>>>,
  <<"skew", <<>>, <<5, 8>>>> }
Funcs == IF Full THEN FuncsCore \cup FuncsMore ELSE FuncsCore
OpsOnly == { <<"scale_at", <<I(2), I(-3), I(3), I(-2)>>, <<>>>>,
             <<"skewx_at", <<I(3), I(0)>>, <<8>>>>,
             <<"skewy_at", <<I(0), I(1)>>, <<4>>>>,
             <<"translate", <<I(96), I(48)>>, <<>>>> }
P0 == <<I(3), I(-7)>>

\* operations of the mutable-matrix machine that take a function instance
CentredNames == {"scale", "rotate", "skew", "skewx", "skewy"}

Init == /\ mode \in {"list", "ops"} /\ hist = <<>> /\ val = Id /\ img = P0

AppendFunc == /\ mode = "list"
              /\ \E f \in Funcs \cup {<<"translate", <<I(96), I(48)>>, <<>>>>} :
                    hist' = Append(hist, f) /\ val' = Then(FuncMatrix(f), val)
Pre  == mode = "ops" /\ \E f \in Funcs \cup OpsOnly : f[1] # "matrix" /\
          hist' = Append(hist, <<"pre", f>>) /\ val' = Then(FuncMatrix(f), val)
Post == mode = "ops" /\ \E f \in Funcs \cup OpsOnly : f[1] # "matrix" /\
          hist' = Append(hist, <<"post", f>>) /\ val' = Then(val, FuncMatrix(f))
PreCat  == mode = "ops" /\ \E f \in Funcs : f[1] = "matrix" /\
          hist' = Append(hist, <<"pre_cat", f>>) /\ val' = Then(FuncMatrix(f), val)
PostCat == mode = "ops" /\ \E f \in Funcs : f[1] = "matrix" /\
          hist' = Append(hist, <<"post_cat", f>>) /\ val' = Then(val, FuncMatrix(f))
MulR == mode = "ops" /\ \E f \in Funcs : f[1] = "matrix" /\      \* val := val * M
          hist' = Append(hist, <<"mul_right", f>>) /\ val' = Then(val, FuncMatrix(f))
MulL == mode = "ops" /\ \E f \in Funcs : f[1] = "matrix" /\      \* val := M * val
          hist' = Append(hist, <<"mul_left", f>>) /\ val' = Then(FuncMatrix(f), val)
Invert == /\ mode = "ops" /\ Det(val) # RZero /\ hist # <<>>
          /\ hist' = Append(hist, <<"invert", <<>>>>) /\ val' = Inverse(val)
Reset == /\ mode = "ops" /\ hist # <<>> /\ hist[Len(hist)][1] # "reset"
         /\ hist' = Append(hist, <<"reset", <<>>>>) /\ val' = Id

Next == /\ Len(hist) < MaxLen
        /\ (AppendFunc \/ Pre \/ Post \/ PreCat \/ PostCat \/ MulR \/ MulL \/ Invert \/ Reset)
        /\ img' = Apply(val', P0)
        /\ UNCHANGED mode

\* simulation mode: long lists / long operation histories
Emit == Len(hist) = MaxLen => PrintT(<<"CASE", mode, hist, val, img>>)
\* ---- properties of the specification itself -------------------------------
ListIsDenotation == mode = "list" => val = Denote(hist)
InverseTwoSided  == Det(val) # RZero => (Then(val, Inverse(val)) = Id /\ Then(Inverse(val), val) = Id)
IdNeutral        == Then(val, Id) = val /\ Then(Id, val) = val
PointApplication == \A f \in Funcs : LET M == FuncMatrix(f) p == <<I(3), I(-7)>> IN
                      Apply(Then(val, M), p) = Apply(M, Apply(val, p))
=============================================================================
