------------------------------ MODULE MC_C10 ------------------------------
(* C10: documents (every element carries an id) x fault placements.  The    *)
(* expected output is DocCore's rendering of the document with the faulty   *)
(* elements removed; ancestor/self/cyclic use references are faults of the  *)
(* use element.                                                             *)
EXTENDS Rat, Sequences, TLC, FiniteSets, Json, IOUtils
CONSTANTS Full, MaxTok, NFaults,
          MinTok     \* faults are injected into documents of at least this many tokens (1 = all; larger in simulation mode)
VARIABLES doc, faults, out, cyc     \* cyc = the cyclic use elements of the closed document (faulty without any injected text)
vars == <<doc, faults, out, cyc>>
AF == INSTANCE Affine
DF == INSTANCE DocFault
I(n) == R(n)
A(n) == <<"abs", I(n)>>
Pc(n) == <<"pct", I(n)>>
NoL == <<"none", RZero>>
MyTF(k) == CASE k = 0 -> AF!Id [] k = 1 -> AF!Translate(I(10), I(20)) [] k = 2 -> AF!Scale(I(2), I(3)) [] k = 3 -> AF!Rotate(I(0), I(1))
             [] k = 4 -> AF!Skew(Q(3, 4), RZero) [] k = 5 -> AF!Scale(I(-1), I(1)) [] k = 6 -> AF!Then(AF!Scale(I(2), I(3)), AF!Rotate(Q(3, 5), Q(4, 5)))
             [] k = 7 -> AF!Scale(I(-2), I(3))
P(x, y) == <<I(x), I(y)>>
MyPathGeo(k) == CASE k = 1 -> << <<"M", <<>>, <<>>, <<>>, P(0, 0)>>, <<"L", P(0, 0), <<>>, <<>>, P(10, 0)>>,
                                 <<"L", P(10, 0), <<>>, <<>>, P(10, 10)>>, <<"Z", P(10, 10), <<>>, <<>>, P(0, 0)>> >>
                  [] k = 2 -> << <<"M", <<>>, <<>>, <<>>, P(5, 5)>>, <<"Q", P(5, 5), P(9, 1), <<>>, P(12, 8)>> >>
MyPaintOf(pc, tok, ctm) == <<<<>>, <<>>>>
INSTANCE DocCore WITH TF <- MyTF, PathGeo <- MyPathGeo, PaintOf <- MyPaintOf

E0 == <<"end", "", 0, FALSE, <<>>, <<>>>>
Tok(tag, id, tf, geo) == <<tag, id, tf, FALSE, geo, <<>>>>
Root == Tok("svg", "root", 0, <<NoL, NoL, A(200), A(100), <<I(0), I(0), I(100), I(50)>>, <<"xMidYMid", "">>>>)
\* every token has an id; a token may occur once per document (ids stay unique)
OpensCore == { Tok("g", "g1", 1, <<>>), Tok("defs", "d1", 0, <<>>),
               Tok("svg", "s1", 0, <<A(20), A(10), A(80), A(40), <<I(0), I(0), I(40), I(40)>>, <<"xMinYMax", "slice">>>>) }
Opens == OpensCore \cup (IF Full THEN { Tok("g", "g2", 3, <<>>) } ELSE {})
LeavesCore == { Tok("rect", "r1", 0, <<A(1), A(2), A(30), A(40), NoL, NoL>>),
                Tok("circle", "c1", 4, <<A(5), A(6), A(7)>>), Tok("path", "p1", 5, <<1>>),
                Tok("image", "i1", 0, <<A(1), A(1), A(8), A(8)>>),
                Tok("use", "u1", 0, <<"g1", A(10), A(20)>>), Tok("use", "u2", 1, <<"r1", NoL, NoL>>),
                \* percentages: resolved against the nearest viewport, which a faulty sibling svg must not disturb
                Tok("rect", "r3", 0, <<Pc(10), Pc(10), Pc(50), Pc(50), NoL, NoL>>) }
Leaves == LeavesCore \cup
          (IF Full THEN { Tok("rect", "r2", 2, <<A(5), A(5), A(10), A(10), A(2), NoL>>), Tok("polyline", "l1", 0, <<P(0, 0), P(3, 4), P(6, 1)>>),
                          Tok("use", "u3", 0, <<"c1", A(3), NoL>>), Tok("use", "u4", 0, <<"g2", NoL, A(5)>>) } ELSE {})
Close(d) == d \o [k \in 1..DepthAt(d, Len(d)) |-> E0]
Ids(d) == {d[i][2] : i \in 1..Len(d)}

\* ancestors of the element at i (indices of the containers open when it starts)
RECURSIVE AncFrom(_, _, _, _)
AncFrom(d, j, i, st) == IF j = i THEN {st[k] : k \in 1..Len(st)}
                        ELSE IF d[j][1] = "end" THEN AncFrom(d, j + 1, i, SubSeq(st, 1, Len(st) - 1))
                        ELSE IF d[j][1] \in Containers THEN AncFrom(d, j + 1, i, Append(st, j))
                        ELSE AncFrom(d, j + 1, i, st)
Ancestors(d, i) == AncFrom(d, 1, i, <<>>)
\* a use whose target is itself or one of its ancestors can only be written as a fault (href_self / href_ancestor)
Cyclic(d, i) == d[i][1] = "use" /\ \E a \in Ancestors(d, i) : d[a][2] = d[i][5][1]

\* the reference rendering: the document without the faulty elements (injected faults and cyclic uses)
Ref(d, fs) == LET F == {fs[j][1] : j \in 1..Len(fs)} \cup DF!CyclicUses(Close(d))
              IN IF 1 \in F THEN <<>> ELSE RenderDoc(DF!RemoveAll(Close(d), F), <<<<>>, <<>>, 0>>, <<>>)
SetSeq(S) == LET RECURSIVE ss(_) ss(T) == IF T = {} THEN <<>> ELSE LET m == CHOOSE x \in T : \A y \in T : x <= y IN <<m>> \o ss(T \ {m}) IN ss(S)
\* hand-made reference cycles (longer than the exhaustive bound allows): mutual 2-cycle with bystanders, 3-cycle through a
\* nested svg, two uses of two ancestors, a bystander use of a group that contains a cyclic use
U(id, target) == Tok("use", id, 0, <<target, NoL, NoL>>)
G1 == Tok("g", "g1", 1, <<>>)   G2 == Tok("g", "g2", 3, <<>>)
S1 == Tok("svg", "s1", 0, <<A(20), A(10), A(80), A(40), <<I(0), I(0), I(40), I(40)>>, <<"xMinYMax", "slice">>>>)
R1 == Tok("rect", "r1", 0, <<A(1), A(2), A(30), A(40), NoL, NoL>>)
C1 == Tok("circle", "c1", 4, <<A(5), A(6), A(7)>>)
L1 == Tok("polyline", "l1", 0, <<P(0, 0), P(3, 4), P(6, 1)>>)
CycleSeeds == { <<Root, G1, U("u4", "g2"), R1, E0, C1, G2, U("u1", "g1"), E0, L1>>,
                <<Root, G1, U("u4", "g2"), E0, G2, U("u5", "s1"), R1, E0, S1, U("u1", "g1"), C1, E0, L1>>,
                <<Root, G1, G2, U("u1", "g1"), U("u4", "g2"), R1, E0, E0, C1>>,
                <<Root, G1, U("u4", "g2"), R1, E0, G2, U("u1", "g1"), E0, U("u6", "g1"), L1>>,
                <<Root, U("u1", "g1"), G1, U("u4", "g2"), E0, G2, U("u6", "g1"), C1, E0, R1>> }
Build == /\ faults = <<>> /\ Len(doc) < MaxTok
         /\ \E t \in Opens \cup Leaves \cup {E0} :
              /\ t = E0 => DepthAt(doc, Len(doc)) > 1
              /\ t \in Opens => DepthAt(doc, Len(doc)) < 3
              /\ t # E0 => t[2] \notin Ids(doc)
              /\ doc' = Append(doc, t)
         /\ UNCHANGED faults
         /\ out' = Ref(doc', faults)
         /\ cyc' = SetSeq(DF!CyclicUses(Close(doc')))
\* inject a fault into element i (kept sorted by index); the root may be faulty too: then nothing is required to render
Inject == /\ Len(faults) < NFaults /\ Len(doc) >= MinTok
          /\ \E i \in 1..Len(doc) : \E k \in DF!FaultsOf(doc[i]) :
               /\ doc[i][1] # "end"
               /\ (IF faults = <<>> THEN TRUE ELSE faults[Len(faults)][1] < i)
               /\ (IF k = "href_ancestor" THEN Ancestors(Close(doc), i) \ {1} # {} ELSE TRUE)
               /\ faults' = Append(faults, <<i, k>>)
               /\ out' = Ref(doc, faults')
          /\ UNCHANGED <<doc, cyc>>
Init == /\ doc \in {<<Root>>} \cup CycleSeeds /\ faults = <<>> /\ out = Ref(doc, <<>>)
        /\ cyc = SetSeq(DF!CyclicUses(Close(doc)))
Next == Build \/ Inject
\* generated documents with faults chosen by the harness (harness/docgen.py): TLC evaluates the reference rendering
GenDocs == JsonDeserialize(IOEnv.DOCS_FILE)
InitGen == \E i \in 1..Len(GenDocs) : /\ doc = GenDocs[i].doc /\ faults = GenDocs[i].faults
                                       /\ out = Ref(GenDocs[i].doc, GenDocs[i].faults)
                                       /\ cyc = SetSeq(DF!CyclicUses(Close(GenDocs[i].doc)))
NextGen == FALSE /\ UNCHANGED vars
\* simulation mode: deeper documents, up to NFaults faults
Emit == (faults # <<>> \/ cyc # <<>>) => PrintT(<<"CASE", doc, faults, out, cyc>>)
\* removing faulty elements keeps the document well formed, and what is rendered then is part of what the fault-free document renders or depends on removed definitions
RemovedIsBalanced == (faults # <<>> /\ faults[1][1] # 1) =>
     Balanced(DF!RemoveAll(Close(doc), {faults[j][1] : j \in 1..Len(faults)} \cup DF!CyclicUses(Close(doc))))
\* every hand-made seed does contain a cycle, and a document whose uses all point forward/outward to plain shapes has none
SeedsAreCyclic == \A d \in CycleSeeds : DF!CyclicUses(Close(d)) # {}
=============================================================================
