------------------------------ MODULE MC_C02 ------------------------------
(* C02: objects (segments, and paths of them) x histories of affine maps.   *)
(* img = the image of the object under the accumulated map; the composition *)
(* law (X*A)*B = X*(A*B) is an invariant of the specification.              *)
EXTENDS Seg, TLC
CONSTANTS Full, MaxMul
VARIABLES obj, hist, acc, img
vars == <<obj, hist, acc, img>>
I(n) == R(n)
Pt(x, y) == <<I(x), I(y)>>
\* angles <<cos, sin>>
A0 == <<I(1), I(0)>>   A90 == <<I(0), I(1)>>   A180 == <<I(-1), I(0)>>   A270 == <<I(0), I(-1)>>
P345 == <<Q(3, 5), Q(4, 5)>>   P512 == <<Q(5, 13), Q(12, 13)>>   Pm == <<Q(-4, 5), Q(3, 5)>>

Segments ==
  { <<"L", Pt(1, 2), Pt(7, -3)>>, <<"L", Pt(4, 4), Pt(4, 4)>>,
    <<"Q", Pt(0, 0), Pt(5, 9), Pt(8, 1)>>, <<"Q", Pt(1, 1), Pt(1, 1), Pt(6, 2)>>, <<"Q", Pt(0, 0), Pt(4, 2), Pt(8, 4)>>,
    <<"C", Pt(0, 0), Pt(2, 8), Pt(7, -5), Pt(9, 3)>>, <<"C", Pt(1, 1), Pt(1, 1), Pt(5, 5), Pt(5, 5)>>,
    <<"C", Pt(3, 3), Pt(3, 3), Pt(3, 3), Pt(3, 3)>>, <<"C", Pt(0, 0), Pt(9, 0), Pt(-3, 0), Pt(6, 0)>>,
    \* arcs: circle / ellipse, axis-aligned / rotated, quarter / half / three-quarter / more, both directions
    MkArc(Pt(2, 3), I(5), I(5), A0, A0, A90, 1),  MkArc(Pt(2, 3), I(5), I(5), A0, A90, A180, -1),
    MkArc(Pt(-1, 4), I(10), I(4), A0, P345, A270, 1), MkArc(Pt(-1, 4), I(10), I(4), P345, A0, P512, 1),
    MkArc(Pt(0, 0), I(3), I(7), P512, Pm, A180, -1), MkArc(Pt(6, -2), I(8), I(2), Pm, A270, AngSub(A0, P345), 1),
    MkArc(Pt(1, 1), I(6), I(3), A90, P345, P345, -1) } \cup
  (IF Full THEN { MkArc(Pt(5, 5), I(100), I(1), P345, A0, Pm, 1), MkArc(Pt(0, 0), Q(1, 2), I(2), A180, P512, A270, -1),
                  <<"C", Pt(0, 0), Pt(1000, 0), Pt(0, 1000), Pt(1000, 1000)>>, <<"Q", Pt(-50, 20), Pt(0, 0), Pt(50, 20)>> } ELSE {})

\* matrix classes: translation, rotations, reflections, uniform and anisotropic scales, shears, rotated anisotropic, ill-conditioned
Matrices ==
  { Translate(I(3), I(-4)), Rotate(I(0), I(1)), Rotate(Q(3, 5), Q(4, 5)), Scale(I(-1), I(1)), Scale(I(2), I(2)),
    Scale(I(2), I(3)), Scale(I(-2), I(3)), Skew(Q(3, 4), RZero), Skew(RZero, Q(5, 12)),
    Then(Scale(I(2), I(3)), Rotate(Q(3, 5), Q(4, 5))), Then(Rotate(Q(3, 5), Q(4, 5)), Scale(I(2), I(3))),
    <<I(0), I(1), I(1), I(0), I(0), I(0)>>, <<I(1), I(2), I(3), I(4), I(5), I(6)>>,
    \* maps that differ from the identity in a single entry
    Translate(I(0), I(25)), Translate(I(25), I(0)), Scale(I(1), I(3)), Scale(I(3), I(1)),
    \* shears in the negative direction (both off-diagonal entries <= 0), with a translation
    <<I(1), I(0), Q(-3, 4), I(1), I(3), I(4)>>, <<Q(3, 2), Q(-2, 5), Q(-7, 10), I(2), I(10), I(-5)>> } \cup
  (IF Full THEN { Scale(I(-2), I(-3)), Scale(Q(1, 1000), Q(1, 1000)), <<I(20), I(1), I(19), I(1), I(0), I(0)>>,
                  Then(Skew(Q(3, 4), RZero), Scale(I(1), I(-1))), Rotate(Q(-4, 5), Q(3, 5)) } ELSE {})

Init == /\ obj \in Segments /\ hist = <<>> /\ acc = Id /\ img = obj
Next == /\ Len(hist) < MaxMul
        /\ \E M \in Matrices : hist' = Append(hist, M) /\ acc' = Then(acc, M) /\ img' = Image(M, img)
        /\ UNCHANGED obj
\* (X*A)*B = X*(A*B): mapping step by step equals mapping by the product
Compose == img = Image(acc, obj)
\* end points map to end points
EndpointsMap == StartOf(img) = Apply(acc, StartOf(obj)) /\ EndOf(img) = Apply(acc, EndOf(obj))
\* Bezier points at dyadic parameters map to the points of the image
PointsMap == obj[1] # "A" => \A t \in {Q(1, 4), Q(1, 2), Q(3, 4)} : PointAt(img, t) = Apply(acc, PointAt(obj, t))
=============================================================================
