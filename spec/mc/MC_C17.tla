------------------------------ MODULE MC_C17 ------------------------------
(* C17: appending path data continues the parse.  PathInterp plus a Split   *)
(* action that FORGETS the interpreter state and reconstructs it from the   *)
(* stored segments alone - which is all an implementation that appends to   *)
(* an existing path can do.  The invariant Reconstruct says the split is    *)
(* invisible; the harness cuts the data at the recorded positions and       *)
(* appends the pieces to the real Path in every supported way.              *)
EXTENDS PathInterp, TLC
CONSTANTS MaxCmds, NVar
VARIABLES cuts,     \* positions (number of commands before) at which the data was cut
          alone,    \* <<valid, interpreter state>> of the current piece interpreted ON ITS OWN
          parts     \* <<valid, segs>> of the finished pieces interpreted on their own
allvars == <<vars, cuts, alone, parts>>
IInit == <<NONE, NONE, NONE, 0, <<>>>>

Pool(v) == IF v = 1 THEN <<3, 1, -2, 5, 4, -3>> ELSE <<0, 4, 6, 0, -5, -2>>      \* (zeros: h0, v0, offsets and controls of exactly zero)
ArcPool(v) == IF v = 1 THEN <<5, 3, 30, 0, 1, 4, -3>> ELSE <<2, 7, -45, 1, 0, -5, 2>>
Args(l, v, cz) ==
  LET full == IF Upper(l) = "A" THEN ArcPool(v) ELSE SubSeq(Pool(v), 1, Arity(l))
  IN IF cz THEN SubSeq(full, 1, Len(full) - 2) ELSE full

JustCut == cuts # <<>> /\ cuts[Len(cuts)] = Len(hist)

Split == /\ hist # <<>> /\ ~JustCut /\ Len(hist) < MaxCmds
         /\ cur' = RecCur /\ zp' = RecZp /\ ctl' = RecCtl[1] /\ deg' = RecCtl[2]
         /\ cuts' = Append(cuts, Len(hist))
         /\ parts' = Append(parts, <<alone[1], alone[2][5]>>)
         /\ alone' = <<TRUE, IInit>>
         /\ UNCHANGED <<segs, hist>>

Step == /\ Len(hist) < MaxCmds
        /\ \E l \in Letters, v \in 1..NVar, impl \in BOOLEAN, cz \in BOOLEAN :
              /\ impl => ~JustCut          \* a piece begins with a command letter
              /\ Do(<<l, Args(l, v, cz), impl, cz>>)
              \* the same command interpreted by a stand-alone Path(piece): defined only when the
              \* piece begins with a move (a leading relative move is then absolute)
              /\ alone' = IF alone[1] /\ (alone[2][1] # NONE \/ Upper(l) = "M")
                             THEN <<TRUE, Exec(alone[2], <<l, Args(l, v, cz), impl, cz>>)>>
                             ELSE <<FALSE, alone[2]>>
        /\ UNCHANGED <<cuts, parts>>

InitC == Init /\ cuts = <<>> /\ alone = <<TRUE, IInit>> /\ parts = <<>>
\* a piece that begins with an ABSOLUTE move means the same alone as in continuation
AbsMoveSame == (alone[1] /\ alone[2][5] # <<>> /\ hist[(IF cuts = <<>> THEN 0 ELSE cuts[Len(cuts)]) + 1][1] = "M")
                 => SubSeq(segs, Len(segs) - Len(alone[2][5]) + 1, Len(segs)) = alone[2][5]
Next == Split \/ Step
\* simulation mode: long behaviours with their cuts
Emit == (Len(hist) = MaxCmds /\ cuts # <<>> /\ ~JustCut) => PrintT(<<"CASE", hist, segs, cuts, Append(parts, <<alone[1], alone[2][5]>>)>>)
\* the split is invisible to the interpreter
SplitInvisible == [][Split => UNCHANGED <<cur, zp, ctl, deg>>]_allvars
=============================================================================
