---------------------------- MODULE MC_C07_arcs ----------------------------
(* Arc family for the round trip: every lattice chord x small radii (too    *)
(* small: scaled up to an exact half turn) and large radii x rotations x    *)
(* flags.  The case is the path "M 0 0 A rx ry rot fa fs x y".              *)
EXTENDS Integers, Sequences, TLC
CONSTANTS R, Full
VARIABLES arc
Rots == IF Full THEN {0, 30, -45, 90, 135, 200} ELSE {0, 30, -45, 90}
Radii == IF Full THEN {1, 2, 3, 7, 12} ELSE {1, 3, 12}
Init == \E x \in -R..R, y \in -R..R, rx \in Radii, ry \in Radii, rot \in Rots, fa \in 0..1, fs \in 0..1 :
          /\ <<x, y>> # <<0, 0>>
          /\ arc = <<"A", <<0, 0>>, <<rx, ry, rot>>, <<fa, fs>>, <<x, y>>>>
Next == UNCHANGED arc
NonDegenerate == arc[5] # arc[2] /\ arc[3][1] > 0 /\ arc[3][2] > 0
=============================================================================
