------------------------------ MODULE MC_C03 ------------------------------
(* C03: documents over the geometry vocabulary.  A state is a token prefix; *)
(* closing every open container makes it a complete document, rendered by   *)
(* DocCore under the caller configuration cfg.                              *)
EXTENDS Rat, Sequences, TLC, Json, IOUtils
CONSTANTS MaxTok, Full
VARIABLES doc, cfg, out
vars == <<doc, cfg, out>>
AF == INSTANCE Affine
I(n) == R(n)
A(n) == <<"abs", I(n)>>
Pc(n) == <<"pct", I(n)>>
NoL == <<"none", RZero>>
\* transform table
MyTF(k) == CASE k = 0 -> AF!Id
             [] k = 1 -> AF!Translate(I(10), I(20))
             [] k = 2 -> AF!Scale(I(2), I(3))
             [] k = 3 -> AF!Rotate(I(0), I(1))                          \* rotate(90)
             [] k = 4 -> AF!Skew(Q(3, 4), RZero)                        \* skewX(atan 3/4)
             [] k = 5 -> AF!Scale(I(-1), I(1))
             [] k = 6 -> AF!Then(AF!Scale(I(2), I(3)), AF!Rotate(Q(3, 5), Q(4, 5)))
             [] k = 7 -> AF!Scale(I(-2), I(3))
\* path data table (segments in the PathInterp vocabulary)
P(x, y) == <<I(x), I(y)>>
MyPathGeo(k) == CASE k = 1 -> << <<"M", <<>>, <<>>, <<>>, P(0, 0)>>, <<"L", P(0, 0), <<>>, <<>>, P(10, 0)>>,
                                 <<"L", P(10, 0), <<>>, <<>>, P(10, 10)>>, <<"Z", P(10, 10), <<>>, <<>>, P(0, 0)>> >>
                  [] k = 2 -> << <<"M", <<>>, <<>>, <<>>, P(5, 5)>>, <<"Q", P(5, 5), P(9, 1), <<>>, P(12, 8)>> >>
MyPaintOf(pc, tok, ctm) == <<<<>>, <<>>>>
INSTANCE DocCore WITH TF <- MyTF, PathGeo <- MyPathGeo, PaintOf <- MyPaintOf

E0 == <<"end", "", 0, FALSE, <<>>, <<>>>>
Tok(tag, id, tf, disp, geo) == <<tag, id, tf, disp, geo, <<>>>>
XMid == <<"xMidYMid", "">>
Roots == { Tok("svg", "", 0, FALSE, <<NoL, NoL, A(200), A(100), <<>>, XMid>>),
           Tok("svg", "", 0, FALSE, <<NoL, NoL, A(200), A(100), <<I(0), I(0), I(100), I(100)>>, <<"xMaxYMin", "meet">>>>),
           Tok("svg", "", 1, FALSE, <<NoL, NoL, NoL, NoL, <<I(-10), I(5), I(50), I(25)>>, XMid>>) }
Opens == { Tok("g", "", 1, FALSE, <<>>), Tok("g", "a", 3, FALSE, <<>>), Tok("g", "", 0, TRUE, <<>>), Tok("defs", "", 0, FALSE, <<>>),
           Tok("svg", "", 0, FALSE, <<A(20), A(10), A(80), A(40), <<I(0), I(0), I(40), I(40)>>, <<"xMinYMax", "slice">>>>),
           Tok("svg", "", 0, FALSE, <<A(20), A(10), Pc(50), Pc(50), <<>>, XMid>>),
           \* viewBox with a non-zero origin and another aspect ratio than its viewport: default alignment (attribute mostly omitted:
           \* nothing may be inherited from an enclosing svg) and preserveAspectRatio="none" (two different scale factors)
           Tok("svg", "", 0, FALSE, <<A(5), A(5), A(60), A(20), <<I(-10), I(5), I(20), I(20)>>, XMid>>),
           Tok("svg", "", 0, FALSE, <<A(5), A(5), A(60), A(20), <<I(-10), I(5), I(60), I(10)>>, <<"none", "">>>>) } \cup    \* (x scale exactly 1, y scale 2)
         (IF Full THEN { Tok("svg", "s", 2, FALSE, <<NoL, NoL, A(96), A(48), <<I(0), I(0), I(0), I(10)>>, XMid>>),
                         Tok("g", "", 6, FALSE, <<>>), Tok("svg", "", 0, FALSE, <<Pc(10), NoL, NoL, NoL, <<I(0), I(0), I(10), I(20)>>, <<"none", "">>>>) } ELSE {})
Leaves == { Tok("rect", "b", 0, FALSE, <<A(1), A(2), A(30), A(40), NoL, NoL>>),
            Tok("rect", "", 2, FALSE, <<NoL, NoL, Pc(50), Pc(25), A(4), NoL>>),
            Tok("rect", "", 0, TRUE, <<A(1), A(2), A(30), A(40), NoL, NoL>>),
            Tok("circle", "c", 4, FALSE, <<A(5), A(6), A(7)>>),
            Tok("circle", "", 2, FALSE, <<A(5), A(6), A(7)>>),        \* under scale(2,3): reifies to two different radii
            Tok("line", "", 0, FALSE, <<A(1), A(2), Pc(100), Pc(100)>>),
            Tok("path", "", 5, FALSE, <<1>>),
            Tok("use", "", 0, FALSE, <<"a", A(10), A(20)>>),
            Tok("use", "", 1, FALSE, <<"b", NoL, NoL>>),
            Tok("use", "u", 0, FALSE, <<"c", A(3), NoL>>) } \cup
          (IF Full THEN { Tok("ellipse", "", 6, FALSE, <<Pc(50), Pc(50), A(8), A(3)>>), Tok("polygon", "", 0, FALSE, <<P(0, 0), P(3, 4), P(6, 1)>>),
                          Tok("polyline", "", 3, FALSE, <<P(0, 0), P(3, 4)>>), Tok("path", "b", 0, FALSE, <<2>>),
                          Tok("use", "", 0, FALSE, <<"u", NoL, A(5)>>), Tok("use", "", 0, FALSE, <<"missing", A(1), A(1)>>),
                          Tok("rect", "", 0, FALSE, <<A(1), A(2), A(0), A(40), NoL, NoL>>), Tok("use", "", 2, FALSE, <<"s", NoL, NoL>>) } ELSE {})
Cfgs == { <<<<>>, <<>>, 0>>, <<I(400), I(400), 0>> } \cup (IF Full THEN { <<<<>>, <<>>, 2>>, <<I(96), I(48), 1>> } ELSE {})

Close(d) == d \o [k \in 1..DepthAt(d, Len(d)) |-> E0]
\* ids of the containers that are still open at the end of d (a use of one of them would be a reference cycle: C10's business)
RECURSIVE OpenIdsFrom(_, _, _)
OpenIdsFrom(d, i, st) == IF i > Len(d) THEN {st[k] : k \in 1..Len(st)}
                         ELSE IF d[i][1] = "end" THEN OpenIdsFrom(d, i + 1, SubSeq(st, 1, Len(st) - 1))
                         ELSE IF d[i][1] \in Containers THEN OpenIdsFrom(d, i + 1, Append(st, d[i][2]))
                         ELSE OpenIdsFrom(d, i + 1, st)
OpenIds(d) == OpenIdsFrom(d, 1, <<>>)
Init == /\ doc \in {<<r>> : r \in Roots} /\ cfg \in Cfgs /\ out = RenderDoc(Close(doc), cfg, <<>>)
Next == /\ Len(doc) < MaxTok
        /\ \E t \in Opens \cup Leaves \cup {E0} :
             /\ t = E0 => DepthAt(doc, Len(doc)) > 1            \* the root stays open
             /\ t \in Opens => DepthAt(doc, Len(doc)) < 3
             /\ t[1] = "use" => t[5][1] \notin OpenIds(doc)
             /\ t[2] # "" => \A i \in 1..Len(doc) : doc[i][2] # t[2]   \* ids are unique (what a duplicate resolves to is not specified)
             /\ doc' = Append(doc, t)
        /\ UNCHANGED cfg
        /\ out' = RenderDoc(Close(doc'), cfg, <<>>)
\* generated documents: the harness draws closed documents (harness/docgen.py) and TLC evaluates the rendering
GenDocs == JsonDeserialize(IOEnv.DOCS_FILE)
InitGen == \E i \in 1..Len(GenDocs) : doc = GenDocs[i].doc /\ cfg = GenDocs[i].cfg /\ out = RenderDoc(GenDocs[i].doc, GenDocs[i].cfg, <<>>)
NextGen == FALSE /\ UNCHANGED vars
\* simulation mode (deeper documents than the exhaustive bound): every behaviour emits its documents of these lengths
Emit == (Len(doc) = MaxTok \/ 2 * Len(doc) = MaxTok + 2) => PrintT(<<"CASE", doc, cfg, out>>)
\* ---- laws of the specification -------------------------------------------
\* rendered shapes appear in document order of their (outermost) source token and never come from hidden subtrees
NothingFromHidden == \A s \in {k \in 1..Len(out) : TRUE} : out[s][1] \in ShapeTags
CompleteIsBalanced == Balanced(Close(doc))
\* the writer's strategy (C20): a shape written with transform  ctm * inverse(viewport)  inside the same viewport renders where it did
WriterLaw == \A k \in 1..Len(out) :
   LET c == out[k][3]  v == out[k][6] IN
   AF!Det(v) # RZero => AF!Then(AF!Then(c, AF!Inverse(v)), v) = c
=============================================================================
