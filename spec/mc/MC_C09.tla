------------------------------ MODULE MC_C09 ------------------------------
(* C09: path-data parsing is total.  Phase "gen" explores PathInterp to get *)
(* conforming behaviours; Inject turns one into a token tape with a single  *)
(* fault (truncate / delete / duplicate / replace / insert / drop the       *)
(* leading move); phase "run" feeds the tape token by token to the total    *)
(* parser PathTok.  Final states (phase "done") are the cases replayed into *)
(* the real parser: tape -> string, expected status and retained segments.  *)
EXTENDS PathTok, TLC
CONSTANTS MaxCmds, NVar, Stepwise, NRepl,
          MinCmds    \* faults are injected into behaviours of at least this many commands (1 = all; larger in simulation mode)
VARIABLES phase, tape, pos, ts, edit
allvars == <<vars, phase, tape, pos, ts, edit>>

Pool(v) == IF v = 1 THEN <<3, 1, -2, 5, 4, -3>> ELSE <<0, 4, 6, 0, -5, -2>>      \* (zeros: h0, v0, offsets and controls of exactly zero)
ArcPool(v) == IF v = 1 THEN <<5, 3, 30, 0, 1, 4, -3>> ELSE <<2, 7, -45, 1, 0, -5, 2>>
Args(l, v, cz) ==
  LET full == IF Upper(l) = "A" THEN ArcPool(v) ELSE SubSeq(Pool(v), 1, Arity(l))
  IN IF cz THEN SubSeq(full, 1, Len(full) - 2) ELSE full

Repl == << <<"x", 1>>, <<"c", "z">>, <<"n", 3>>, <<"c", "L">>, <<"n", 0>>, <<"c", "a">>,
           <<"c", "h">>, <<"n", -2>>, <<"c", "M">>, <<"c", "T">>, <<"c", "s">>, <<"c", "V">> >>

Remove(T, i)    == SubSeq(T, 1, i - 1) \o SubSeq(T, i + 1, Len(T))
InsertAt(T, i, t) == SubSeq(T, 1, i - 1) \o <<t>> \o SubSeq(T, i, Len(T))
Edits(T) ==
  {<<"trunc", i, 0>> : i \in 0..(Len(T) - 1)} \cup
  {<<"del", i, 0>> : i \in 1..Len(T)} \cup
  {<<"dup", i, 0>> : i \in 1..Len(T)} \cup
  {<<"repl", i, k>> : i \in 1..Len(T), k \in 1..NRepl} \cup
  {<<"ins", i, k>> : i \in 1..(Len(T) + 1), k \in 1..NRepl} \cup
  {<<"drop1", 0, 0>>, <<"none", 0, 0>>}
ApplyEdit(T, e) ==
  CASE e[1] = "trunc" -> SubSeq(T, 1, e[2])
    [] e[1] = "del"   -> Remove(T, e[2])
    [] e[1] = "dup"   -> InsertAt(T, e[2], T[e[2]])
    [] e[1] = "repl"  -> InsertAt(Remove(T, e[2]), e[2], Repl[e[3]])
    [] e[1] = "ins"   -> InsertAt(T, e[2], Repl[e[3]])
    [] e[1] = "drop1" -> SubSeq(T, 4, Len(T))      \* the leading move is letter + 2 numbers
    [] e[1] = "none"  -> T

InitT == Init /\ phase = "gen" /\ tape = <<>> /\ pos = 0 /\ ts = TokInit /\ edit = <<>>

Gen == /\ phase = "gen" /\ Len(hist) < MaxCmds
       /\ \E l \in Letters, v \in 1..NVar, impl \in BOOLEAN, cz \in BOOLEAN :
             Do(<<l, Args(l, v, cz), impl, cz>>)
       /\ UNCHANGED <<phase, tape, pos, ts, edit>>

Inject == /\ phase = "gen" /\ Len(hist) >= MinCmds
          /\ \E e \in Edits(Flatten(hist)) :
               /\ edit' = e
               /\ tape' = ApplyEdit(Flatten(hist), e)
               /\ IF Stepwise THEN phase' = "run" /\ pos' = 1 /\ ts' = TokInit
                  ELSE phase' = "done" /\ pos' = 0
                       /\ ts' = RunTokens(ApplyEdit(Flatten(hist), e))
          /\ UNCHANGED vars

Consume == /\ phase = "run" /\ pos <= Len(tape)
           /\ ts' = TokStep(ts, tape[pos]) /\ pos' = pos + 1
           /\ UNCHANGED <<vars, phase, tape, edit>>
Finish == /\ phase = "run" /\ pos > Len(tape)
          /\ ts' = TokEnd(ts) /\ phase' = "done"
          /\ UNCHANGED <<vars, tape, pos, edit>>
Done == phase = "done" /\ UNCHANGED allvars
Next == Gen \/ Inject \/ Consume \/ Finish \/ Done

\* simulation mode: every single-fault tape of the longer behaviours visited
Emit == phase = "done" => PrintT(<<"CASE", tape, ts[1], ts[5][5], edit>>)
\* the total parser agrees with PathInterp on every conforming behaviour
AgreesOnConforming == phase = "gen" =>
   LET r == RunTokens(Flatten(hist)) IN r[1] = "ok" /\ r[5] = <<cur, zp, ctl, deg, segs>>
\* every retained segment has numeric coordinates
NumericSegs == \A i \in 1..Len(ts[5][5]) :
   LET g == ts[5][5][i] IN Len(g[5]) = 2 /\ (g[1] # "M" => Len(g[2]) = 2)
\* once stopped, the result is frozen; segments are only ever appended
Frozen == [][(phase = "run" /\ ts[1] # "ok") => ts'[5] = ts[5]]_allvars
AppendOnly == [][phase = "run" /\ phase' = "run" =>
                   SubSeq(ts'[5][5], 1, Len(ts[5][5])) = ts[5][5]]_allvars
\* an unfaulted tape is parsed completely
NoFaultOk == (phase = "done" /\ edit[1] = "none") => (ts[1] = "ok" /\ ts[5][5] = segs)
=============================================================================
