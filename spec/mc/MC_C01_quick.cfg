CONSTANTS
  MaxCmds = 3
  NVar = 2
INIT Init
NEXT Next
INVARIANT Connected
INVARIANT CloseReturns
INVARIANT Count
INVARIANT Reconstruct
CHECK_DEADLOCK FALSE
