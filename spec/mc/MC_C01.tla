------------------------------ MODULE MC_C01 ------------------------------
(* Bounded exploration of PathInterp: every grammar-conforming behaviour of *)
(* at most MaxCmds commands over all 20 letters, NVar argument variants,    *)
(* implicit repetition and segment-completing closes.                       *)
EXTENDS PathInterp, TLC
CONSTANTS MaxCmds, NVar

Pool(v) == IF v = 1 THEN <<3, 1, -2, 5, 4, -3>> ELSE <<0, 4, 6, 0, -5, -2>>      \* (zeros: h0, v0, offsets and controls of exactly zero)
ArcPool(v) == IF v = 1 THEN <<5, 3, 30, 0, 1, 4, -3>> ELSE <<2, 7, -45, 1, 0, -5, 2>>
Args(l, v, cz) ==
  LET full == IF Upper(l) = "A" THEN ArcPool(v) ELSE SubSeq(Pool(v), 1, Arity(l))
  IN IF cz THEN SubSeq(full, 1, Len(full) - 2) ELSE full

Next == /\ Len(hist) < MaxCmds
        /\ \E l \in Letters, v \in 1..NVar, impl \in BOOLEAN, cz \in BOOLEAN :
              Do(<<l, Args(l, v, cz), impl, cz>>)
\* simulation mode: long behaviours, every complete one emitted (TLC evaluates this on every generated successor)
Emit == Len(hist) = MaxCmds => PrintT(<<"CASE", hist, segs>>)
Spec == Init /\ [][Next]_vars
=============================================================================
