------------------------------ MODULE MC_C18 ------------------------------
EXTENDS Alias, TLC
CONSTANTS MaxMut
AllMuts == UNION {MutsOf(k) : k \in Kinds}
Next == /\ Len(hist) < MaxMut
        /\ \E side \in {"x", "y"}, m \in AllMuts : Mut(side, m)
\* simulation mode: long mutation histories
Emit == Len(hist) = MaxMut => PrintT(<<"CASE", kind, op, hist>>)
=============================================================================
