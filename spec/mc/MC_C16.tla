------------------------------ MODULE MC_C16 ------------------------------
(* C16: reverse() traces the same geometry backwards and is an involution.  *)
(* Init picks a path shape (a word over M L Q C A Z R built over distinct   *)
(* lattice points); the actions are the public operations; the state holds  *)
(* the EXPECTED geometry (PathOps abstraction) after the history so far.    *)
EXTENDS PathOps, TLC
CONSTANTS MaxSegs, MaxOps
VARIABLES word, p0, geo, hist
vars == <<word, p0, geo, hist>>
Kinds == {"M", "L", "Q", "C", "A", "E", "Z", "R"}

RECURSIVE BuildFrom(_, _, _)
BuildFrom(b, w, i) == IF i > Len(w) THEN b ELSE BuildFrom(BuildStep(b, w[i]), w, i + 1)
RECURSIVE WordOK(_, _, _)
WordOK(b, w, i) == IF i > Len(w) THEN TRUE
                   ELSE KindOK(b, w[i]) /\ WordOK(BuildStep(b, w[i]), w, i + 1)
B0 == <<NONE, NONE, 0, <<>>>>

Init == /\ word \in UNION {[1..n -> Kinds] : n \in 1..MaxSegs}
        /\ WordOK(B0, word, 1)
        /\ p0 = BuildFrom(B0, word, 1)[4]
        /\ geo = Geometry(p0)
        /\ hist = <<>>

RevAll    == geo' = Mirror(geo) /\ hist' = Append(hist, <<"rev", 0>>)
RevSub(i) == geo' = [geo EXCEPT ![i] = MirrorSub(geo[i])] /\ hist' = Append(hist, <<"revsub", i>>)
Mul(k)    == geo' = MapGeo(k, geo) /\ hist' = Append(hist, <<"mul", k>>)

Next == /\ Len(hist) < MaxOps
        /\ \/ RevAll
           \/ \E i \in 1..Len(geo) : RevSub(i)
           \/ \E k \in 1..3 : (IF hist = <<>> THEN TRUE ELSE hist[Len(hist)][1] # "mul") /\ Mul(k)
        /\ UNCHANGED <<word, p0>>

\* ---- the property on the specification itself --------------------------------
Connected    == GeoConnected(geo)
NoPointLost  == \/ \E i \in 1..Len(hist) : hist[i][1] = "mul"
                \/ PointsOf(geo) = PointsOf(Geometry(p0))
SameShape    == Len(geo) = Len(Geometry(p0))
Involution   == [][/\ RevAll => Mirror(geo') = geo
                   /\ \A i \in 1..Len(geo) : RevSub(i) => MirrorSub(geo'[i]) = geo[i]]_vars
ClosedStays  == [][RevAll => \A i \in 1..Len(geo) : geo'[Len(geo) + 1 - i][1] = geo[i][1]]_vars
OnlyThatSub  == [][\A i \in 1..Len(geo) : RevSub(i) => \A j \in 1..Len(geo) : j # i => geo'[j] = geo[j]]_vars
=============================================================================
