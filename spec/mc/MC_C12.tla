------------------------------ MODULE MC_C12 ------------------------------
(* C12: every (unit, amount) x context cell for value() and the conversions *)
(* (mode "un"), every ordered pair of (unit, amount) for the binary         *)
(* operations evaluated in two fully resolving contexts (mode "bin").       *)
EXTENDS CssLength, TLC
CONSTANTS Full
VARIABLES mode, x, y, ctx, exp
vars == <<mode, x, y, ctx, exp>>

Amounts == IF Full THEN {R(0), R(1), R(3), R(4), R(12), R(16), Q(127, 50), Q(127, 5), Q(-3, 2), R(10), Q(1, 2), R(254)}
           ELSE {R(0), R(1), R(3), R(4), R(12), R(16), Q(127, 50), Q(-3, 2)}
Lengths == {<<a, u>> : a \in Amounts, u \in Units}

\* two contexts that resolve every unit, with different ratios between the families
CtxA == <<R(96), <<R(200), "">>, R(10), R(4), <<R(300), R(200)>>>>
CtxB == <<R(72), <<R(50), "">>, R(16), R(7), <<R(100), R(200)>>>>
Ppis  == {NONE, R(96), R(72), R(1000)}
Refs  == {NONE, <<R(200), "">>, <<R(2), "in">>, <<R(50), "px">>, <<R(3), "em">>, <<R(5), "ex">>, <<R(30), "pt">>, <<R(20), "vmin">>}
Fonts == {<<NONE, NONE>>, <<R(10), R(4)>>, <<R(10), NONE>>, <<NONE, R(4)>>}
Boxes == {NONE, <<R(100), R(200)>>, <<R(300), R(200)>>}
Contexts == {<<p, r, f[1], f[2], b>> : p \in Ppis, r \in Refs, f \in Fonts, b \in Boxes}

Bin(l, m) ==
  <<Commensurable(l[2], m[2]),
    Sum(l[1], l[2], m[1], m[2], CtxA),  Sum(l[1], l[2], m[1], m[2], CtxB),
    Diff(l[1], l[2], m[1], m[2], CtxA), Diff(l[1], l[2], m[1], m[2], CtxB),
    IF m[1] = RZero THEN NONE ELSE Ratio(l[1], l[2], m[1], m[2], CtxA),
    IF m[1] = RZero THEN NONE ELSE Ratio(l[1], l[2], m[1], m[2], CtxB),
    Less(l[1], l[2], m[1], m[2], CtxA), Less(l[1], l[2], m[1], m[2], CtxB),
    Same(l[1], l[2], m[1], m[2], CtxA), Same(l[1], l[2], m[1], m[2], CtxB)>>

Un(l, c) ==
  LET v == Resolve(l[1], l[2], c) IN
  <<v,
    IF v = SYM \/ c[1] = NONE THEN SYM ELSE ToUnit(l[1], l[2], c, "mm"),
    IF v = SYM \/ c[1] = NONE THEN SYM ELSE ToUnit(l[1], l[2], c, "cm"),
    IF v = SYM \/ c[1] = NONE THEN SYM ELSE ToUnit(l[1], l[2], c, "in")>>

Init == \/ /\ mode = "bin" /\ x \in Lengths /\ y \in Lengths /\ ctx = NONE /\ exp = Bin(x, y)
        \/ /\ mode = "un" /\ x \in Lengths /\ y = NONE /\ ctx \in Contexts /\ exp = Un(x, ctx)
Next == UNCHANGED vars

\* ---- the unit graph of the specification is consistent --------------------
Cycle == /\ RMul(PxFactor("pc"), RDiv(ROne, PxFactor("pt"))) = R(12)          \* 1pc = 12pt
         /\ RDiv(InFactor("cm"), InFactor("mm")) = R(10)                        \* 1cm = 10mm
         /\ RMul(Q(127, 50), InFactor("cm")) = ROne                             \* 2.54cm = 1in
\* for commensurable pairs the order and equality do not depend on the context
ContextFree == (mode = "bin" /\ exp[1]) => (exp[8] = exp[9] /\ exp[10] = exp[11] /\ exp[6] = exp[7])
\* equality is reflexive, order irreflexive
Reflexive == (mode = "bin" /\ x = y) => (exp[10] /\ ~exp[8])
=============================================================================
