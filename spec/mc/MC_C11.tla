------------------------------ MODULE MC_C11 ------------------------------
(* C11: every align x {absent, meet, slice} cell crossed with element and   *)
(* viewBox sizes in both aspect directions and origins; plus the degenerate *)
(* viewBoxes (zero-sized => rendering disabled, incomplete => identity).    *)
EXTENDS Viewport, TLC
CONSTANTS Full
VARIABLES kind, e, vb, align, mos, exp
vars == <<kind, e, vb, align, mos, exp>>
Sizes   == IF Full THEN {Q(1, 8), Q(1, 2), R(1), R(3), R(10), R(48), R(96), R(250), R(1024), R(2048)}
           ELSE {Q(1, 2), R(3), R(48), R(250)}
VbSizes == IF Full THEN {Q(1, 8), Q(1, 2), R(1), R(3), R(10), R(250), R(1024), R(2048)} ELSE {Q(1, 2), R(3), R(10), R(250)}
Origins == IF Full THEN {<<R(0), R(0)>>, <<Q(-7, 2), R(5)>>, <<R(5), Q(-7, 2)>>, <<R(100), R(40)>>} ELSE {<<R(0), R(0)>>, <<Q(-7, 2), R(5)>>}
EOrig   == {<<R(0), R(0)>>, <<R(5), R(-3)>>}
Init ==
  \/ /\ kind = "normal"
     /\ \E o \in EOrig, w \in Sizes, h \in Sizes : e = <<o[1], o[2], w, h>>
     /\ \E o \in Origins, w \in VbSizes, h \in VbSizes : vb = <<o[1], o[2], w, h>>
     /\ align \in Aligns /\ mos \in {"", "meet", "slice"}
     /\ exp = Equivalent(e, vb, align, mos)
  \/ /\ kind = "zero"        \* zero-sized viewBox: rendering disabled, no failure
     /\ e = <<R(0), R(0), R(3), R(10)>>
     /\ \E w \in {R(0), R(3)}, h \in {R(0), R(10)} : (w = R(0) \/ h = R(0)) /\ vb = <<R(1), R(2), w, h>>
     /\ align \in {"none", "xMidYMid", "xMaxYMin"} /\ mos \in {"", "slice"}
     /\ exp = <<"disabled">>
  \/ /\ kind = "incomplete"  \* missing / incomplete viewBox: identity
     /\ e = <<R(0), R(0), R(3), R(10)>>
     /\ \E n \in 0..3 : vb = SubSeq(<<R(1), R(2), R(30), R(40)>>, 1, n)
     /\ align \in {"none", "xMidYMid", "xMaxYMin"} /\ mos \in {"", "slice"}
     /\ exp = <<ROne, ROne, RZero, RZero>>
Next == UNCHANGED vars
HenceHolds == kind = "normal" => Hence(e, vb, align, mos)
MeetIsDefault == kind = "normal" /\ mos = "" => exp = Equivalent(e, vb, align, "meet")
=============================================================================
