------------------------------ MODULE MC_C19 ------------------------------
(* C19.  "struct": abstract paths with arcs at every position x slice       *)
(* counts, zero-extent arcs: the conversion keeps the path connected and    *)
(* everything else untouched.  "metric": the concrete arc table (ellipse    *)
(* frames with exact data) x position in a path x subdivision setting, for  *)
(* the harness.                                                             *)
EXTENDS ArcApprox, Rat, TLC, FiniteSets
CONSTANTS Full
VARIABLES kind, arg, exp
vars == <<kind, arg, exp>>
\* abstract paths: M then 3 drawing segments from {L, A}; a zero-extent arc has start id = end id
Words == [1..3 -> {"L", "A", "A0"}]
\* number of segments among the first k that advance to a new point (a zero-extent arc ends where it starts)
Cardinality0(w, k) == Cardinality({j \in 1..k : w[j] # "A0"})
Build(w) == <<<<"M", 0, 1>>>> \o
   [k \in 1..3 |-> <<IF w[k] = "L" THEN "L" ELSE "A",
                     1 + Cardinality0(w, k - 1), 1 + Cardinality0(w, k)>>]
Angs == { <<R(1), R(0)>>, <<Q(3, 5), Q(4, 5)>>, <<Q(-4, 5), Q(3, 5)>>, <<Q(12, 13), Q(-5, 13)>> }
Exts == { <<R(1), R(0)>>, <<Q(40, 41), Q(9, 41)>>, <<Q(4, 5), Q(3, 5)>>, <<R(0), R(1)>>, <<R(-1), R(0)>>, <<R(0), R(-1)>>, <<Q(4, 5), Q(-3, 5)>>,
          <<Q(9999, 10001), Q(200, 10001)>> }
Rots == IF Full THEN { <<R(1), R(0)>>, <<R(0), R(1)>>, <<Q(3, 5), Q(4, 5)>>, <<Q(12, 13), Q(-5, 13)>>, <<Q(-4, 5), Q(3, 5)>> }
        ELSE { <<R(1), R(0)>>, <<Q(3, 5), Q(4, 5)>> }
Radii == IF Full THEN { <<R(5), R(5)>>, <<R(10), R(5)>>, <<R(3), R(30)>>, <<R(100), R(1)>>, <<Q(1, 2), Q(1, 4)>> }
         ELSE { <<R(5), R(5)>>, <<R(10), R(5)>>, <<R(100), R(1)>> }
Init ==
  \/ /\ kind = "struct"
     /\ \E w \in Words, n \in 1..3 : arg = <<w, n>> /\ exp = Convert(Build(w), n, {i \in 2..4 : w[i - 1] = "A0"})
  \/ /\ kind = "metric"
     /\ \E r \in Radii, ph \in Rots, th0 \in Angs, e \in Exts, dir \in {1, -1}, turns \in {0, 1},
           pos \in {"alone", "first", "middle", "last"}, sub \in {"default", "x2", "x4", "n1", "err"} :
          /\ (turns = 1 => e \in {<<R(0), R(1)>>, <<R(1), R(0)>>})    \* 450 degrees, and exactly one full turn (start = end)
          /\ (turns = 0 => e # <<R(1), R(0)>>)
          /\ arg = << <<R(2), R(-3)>>, <<RMul(r[1], ph[1]), RMul(r[1], ph[2])>>, <<RNeg(RMul(r[2], ph[2])), RMul(r[2], ph[1])>>,
                      th0, e, dir, turns, pos, sub>>
          /\ exp = <<>>
Next == UNCHANGED vars
\* ---- the structural contract holds for the specification's own conversion ----
StaysConnected == kind = "struct" => (Connected(exp) /\ NoArcs(exp))
CountRight == kind = "struct" =>
   LET w == arg[1]  n == arg[2]
       na == Cardinality({k \in 1..3 : w[k] = "A"})  nz == Cardinality({k \in 1..3 : w[k] = "A0"})
   IN Len(exp) = 4 - na - nz + n * na
EndsKept == kind = "struct" => (exp[1] = <<"M", 0, 1>> /\ exp[Len(exp)][3] = Build(arg[1])[4][3])
=============================================================================
