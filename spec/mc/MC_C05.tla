------------------------------ MODULE MC_C05 ------------------------------
(* C05 cases: "normal" = ellipse x two parameter angles x four flag pairs;  *)
(* "scaled" = the same with the radii passed divided by k at an exact half  *)
(* turn (F.6.6 must scale them back); "degenerate" = zero radius /          *)
(* coincident end points.                                                   *)
EXTENDS ArcF6, TLC
CONSTANTS Full
VARIABLES kind, args, exp
vars == <<kind, args, exp>>
\* <<cos, sin>> of parameter angles: multiples of 90 degrees and Pythagorean angles in every quadrant
Angs == { <<R(1), R(0)>>, <<R(0), R(1)>>, <<R(-1), R(0)>>, <<R(0), R(-1)>>,
          <<Q(3, 5), Q(4, 5)>>, <<Q(4, 5), Q(3, 5)>>, <<Q(-3, 5), Q(4, 5)>>, <<Q(-4, 5), Q(-3, 5)>>,
          <<Q(5, 13), Q(12, 13)>>, <<Q(12, 13), Q(-5, 13)>>, <<Q(-12, 13), Q(5, 13)>>, <<Q(3, 5), Q(-4, 5)>> }
\* rotation: <<cos, sin, extra full turns (for the spelling in degrees)>>
Rots == IF Full THEN { <<R(1), R(0), 0>>, <<R(0), R(1), 0>>, <<R(-1), R(0), 0>>, <<R(0), R(-1), 0>>, <<R(0), R(1), 1>>,
                       <<Q(3, 5), Q(4, 5), 0>>, <<Q(12, 13), Q(5, 13), 0>>, <<Q(-4, 5), Q(3, 5), -1>>, <<Q(4, 5), Q(-3, 5), 0>> }
        ELSE { <<R(1), R(0), 0>>, <<R(0), R(1), 1>>, <<Q(3, 5), Q(4, 5), 0>>, <<Q(-4, 5), Q(3, 5), -1>>, <<Q(12, 13), Q(-5, 13), 0>> }
Radii == IF Full THEN { <<R(5), R(5)>>, <<R(10), R(5)>>, <<R(3), R(7)>>, <<R(100), R(1)>>, <<Q(1, 2), R(2)>>, <<R(13), R(13)>> }
         ELSE { <<R(5), R(5)>>, <<R(10), R(5)>>, <<R(3), R(7)>> }
Centres == IF Full THEN { <<R(0), R(0)>>, <<R(7), R(-3)>> } ELSE { <<R(7), R(-3)>> }

Init ==
  \/ /\ kind = "normal"
     /\ \E c \in Centres, r \in Radii, ph \in Rots, t1 \in Angs, t2 \in Angs, fa \in 0..1, fs \in 0..1 :
          /\ t1 # t2
          /\ args = <<EllipsePoint(c, r[1], r[2], ph, t1), r[1], r[2], ph, fa, fs, EllipsePoint(c, r[1], r[2], ph, t2)>>
          /\ exp = <<Expected(c, r[1], r[2], ph, t1, t2, fa, fs), r[1], r[2]>>
  \/ /\ kind = "scaled"       \* radii too small by the factor k, end points antipodal: exact half turn
     /\ \E c \in Centres, r \in Radii, ph \in Rots, t1 \in Angs, k \in {2, 10, 1000}, fa \in 0..1, fs \in 0..1 :
          /\ args = <<EllipsePoint(c, r[1], r[2], ph, t1), RDiv(r[1], R(k)), RDiv(r[2], R(k)), ph, fa, fs,
                      EllipsePoint(c, r[1], r[2], ph, APi(t1))>>
          /\ exp = <<Expected(c, r[1], r[2], ph, t1, APi(t1), fa, fs), r[1], r[2]>>
  \/ /\ kind = "negative"     \* negative radii act as their absolute values
     /\ \E c \in Centres, r \in Radii, ph \in Rots, t1 \in Angs, t2 \in Angs, fa \in 0..1, fs \in 0..1, sg \in {<<-1, 1>>, <<1, -1>>, <<-1, -1>>} :
          /\ t1 # t2 /\ t1[1] = R(1)
          /\ args = <<EllipsePoint(c, r[1], r[2], ph, t1), RMul(R(sg[1]), r[1]), RMul(R(sg[2]), r[2]), ph, fa, fs, EllipsePoint(c, r[1], r[2], ph, t2)>>
          /\ exp = <<Expected(c, r[1], r[2], ph, t1, t2, fa, fs), r[1], r[2]>>
  \/ /\ kind = "line"         \* a zero radius draws the straight line between the end points
     /\ \E p \in {<<R(1), R(2)>>, <<R(-3), Q(1, 2)>>}, q \in {<<R(4), R(6)>>, <<R(1), R(-10)>>, <<R(-3), R(2)>>},
           r \in {<<R(0), R(5)>>, <<R(5), R(0)>>, <<R(0), R(0)>>}, ph \in Rots, fa \in 0..1, fs \in 0..1 :
          /\ p # q
          /\ args = <<p, r[1], r[2], ph, fa, fs, q>>
          /\ exp = <<"line", p, q>>
  \/ /\ kind = "empty"        \* coincident end points draw nothing
     /\ \E p \in {<<R(1), R(2)>>, <<R(-3), Q(1, 2)>>}, r \in Radii, ph \in Rots, fa \in 0..1, fs \in 0..1 :
          /\ args = <<p, r[1], r[2], ph, fa, fs, p>>
          /\ exp = <<"empty", p>>
Next == UNCHANGED vars

\* ---- consistency of the construction --------------------------------------
Ph == <<args[4][1], args[4][2]>>
OnExpectedEllipse == kind \in {"normal", "scaled", "negative"} =>
   /\ Implicit(exp[1][1], exp[2], exp[3], Ph, args[1]) = ROne
   /\ Implicit(exp[1][1], exp[2], exp[3], Ph, args[7]) = ROne
\* the start point is where the expected start angle says, the end point where start angle +- extent says
StartAngleRight == kind \in {"normal", "scaled", "negative"} =>
   EllipsePoint(exp[1][1], exp[2], exp[3], Ph, exp[1][2]) = args[1]
EndAngleRight == kind \in {"normal", "scaled", "negative"} =>
   EllipsePoint(exp[1][1], exp[2], exp[3], Ph,
                IF exp[1][4] = 1 THEN AAdd(exp[1][2], exp[1][3]) ELSE ASub(exp[1][2], exp[1][3])) = args[7]
\* the extent is larger than a half turn iff the large-arc flag is set (unless it is exactly a half turn)
LargeIffFlag == kind \in {"normal", "negative"} =>
   (IsHalf(exp[1][3]) \/ (MoreThanHalf(exp[1][3]) <=> args[5] = 1))
=============================================================================
