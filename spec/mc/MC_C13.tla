------------------------------ MODULE MC_C13 ------------------------------
(* C13.  Spelling modes: one initial state per spelling with its RGBA       *)
(* value.  Accessor mode: a colour driven by setter actions; the state is   *)
(* the expected <<r, g, b, a>> after the history.                           *)
EXTENDS Color, TLC, FiniteSets
CONSTANTS Full, MaxSet
VARIABLES mode, arg, col, hist, hslv, note   \* note: "" = col is exact; otherwise the leeway left by the last write
vars == <<mode, arg, col, hist, hslv, note>>      \* hslv = ToHsl(col) in accessor mode (hue in turns)
NONE == <<>>

Bytes6 == IF Full THEN {0, 1, 15, 16, 127, 128, 171, 205, 254, 255} ELSE {0, 1, 16, 127, 128, 205, 255}
Nums   == {R(-10), R(0), R(1), R(127), R(128), R(255), R(256), R(300), Q(3, 2), Q(255, 2)}
Pcts   == {R(-10), R(0), R(50), R(100), R(120), R(33), Q(1, 2)}
Opac   == {NONE, R(0), Q(1, 2), R(1), Q(3, 2), Q(-1, 2), Q(1, 4)}
Hues   == {R(0), R(30), R(60), R(120), R(180), R(210), R(240), R(300), R(360), R(390), R(-120), R(-300), R(-350), R(-480), R(765), Q(45, 2)}
Sats   == {R(0), R(50), R(100), R(120), R(-5), R(25)}
Lits   == {R(0), R(25), R(50), R(75), R(100), R(130)}

Starts == {<<51, 102, 153, 255>>, <<0, 0, 0, 255>>, <<255, 255, 255, 128>>, <<200, 100, 50, 64>>, <<10, 200, 30, 0>>}
Vals   == {0, 1, 127, 128, 254, 255, -5, 300}

Init ==
  \/ /\ mode = "keyword" /\ \E i \in 1..Len(ColorTable) :
          arg = ColorTable[i][1] /\ col = <<ColorTable[i][2], ColorTable[i][3], ColorTable[i][4], 255>>
     /\ hist = <<>> /\ note = "" /\ hslv = (IF mode = "acc" THEN ToHsl(col) ELSE NONE)
  \/ /\ mode = "hex" /\ \E n \in {3, 4} : arg \in [1..n -> HexDigits]
     /\ col = FromHex(arg) /\ hist = <<>> /\ note = "" /\ hslv = (IF mode = "acc" THEN ToHsl(col) ELSE NONE)
  \/ /\ mode = "hex" /\ \E r \in Bytes6, g \in Bytes6, b \in Bytes6 :
          LET H(v) == <<CHOOSE c \in HexDigits : HexVal(c) = v \div 16, CHOOSE c \in HexDigits : HexVal(c) = v % 16>> IN
          \/ arg = H(r) \o H(g) \o H(b)
          \/ \E a \in Bytes6 : arg = H(r) \o H(g) \o H(b) \o H(a)
     /\ col = FromHex(arg) /\ hist = <<>> /\ note = "" /\ hslv = (IF mode = "acc" THEN ToHsl(col) ELSE NONE)
  \/ /\ mode = "rgb" /\ \E r \in Nums, g \in Nums, b \in Nums, o \in Opac :
          arg = <<r, g, b, o>> /\ col = FromRgb(r, g, b, o)
     /\ hist = <<>> /\ note = "" /\ hslv = (IF mode = "acc" THEN ToHsl(col) ELSE NONE)
  \/ /\ mode = "rgbp" /\ \E r \in Pcts, g \in Pcts, b \in Pcts, o \in Opac :
          arg = <<r, g, b, o>> /\ col = FromRgbP(r, g, b, o)
     /\ hist = <<>> /\ note = "" /\ hslv = (IF mode = "acc" THEN ToHsl(col) ELSE NONE)
  \/ /\ mode = "hsl" /\ \E h \in Hues, s \in Sats, l \in Lits, o \in {NONE, Q(1, 2), R(1)} :
          arg = <<h, s, l, o>> /\ col = FromHsl(h, s, l, o)
     /\ hist = <<>> /\ note = "" /\ hslv = (IF mode = "acc" THEN ToHsl(col) ELSE NONE)
  \/ /\ mode = "acc" /\ arg \in Starts /\ col = arg /\ hist = <<>> /\ note = "" /\ hslv = (IF mode = "acc" THEN ToHsl(col) ELSE NONE)

  \* every 8-bit value of every component (exhaustive per component), written onto two start colours
  \/ /\ mode = "acc" /\ arg \in {<<51, 102, 153, 255>>, <<200, 100, 50, 64>>} /\ note = ""
     /\ \E comp \in {"red", "green", "blue", "alpha"}, v \in 0..255 :
          /\ hist = <<<<comp, v>>>>
          /\ col = CASE comp = "red" -> <<v, arg[2], arg[3], arg[4]>> [] comp = "green" -> <<arg[1], v, arg[3], arg[4]>>
                      [] comp = "blue" -> <<arg[1], arg[2], v, arg[4]>> [] comp = "alpha" -> <<arg[1], arg[2], arg[3], v>>
     /\ hslv = ToHsl(col)

Set(name, v, c) == hist' = Append(hist, <<name, v>>) /\ col' = c /\ note' = ""
SetN(name, v, c, n) == hist' = Append(hist, <<name, v>>) /\ col' = c /\ note' = n
Next ==
  /\ mode = "acc" /\ Len(hist) < MaxSet
  /\ note = ""
  /\ \/ \E v \in Vals : Set("red", v, <<Clamp8(v), col[2], col[3], col[4]>>)
     \/ \E v \in Vals : Set("green", v, <<col[1], Clamp8(v), col[3], col[4]>>)
     \/ \E v \in Vals : Set("blue", v, <<col[1], col[2], Clamp8(v), col[4]>>)
     \/ \E v \in Vals : Set("alpha", v, <<col[1], col[2], col[3], Clamp8(v)>>)
     \/ \E o \in {R(0), Q(1, 4), Q(1, 2), R(1), Q(3, 2)} : IF Alpha(o)[2] = 1 THEN Set("opacity", o, <<col[1], col[2], col[3], Alpha(o)[1]>>)
                                                        ELSE SetN("opacity", o, col, "alpha_rounds")
     \/ \E p \in Starts : Set("rgba", p, p)                        \* packed 0xRRGGBBAA
     \/ \E p \in Starts : Set("argb", p, p)                        \* packed 0xAARRGGBB
     \/ \E p \in Starts : SetN("rgb", p, <<p[1], p[2], p[3], col[4]>>, "alpha_unspecified")   \* packed 0xRRGGBB
     \/ \E p \in Starts : SetN("bgr", p, <<p[1], p[2], p[3], col[4]>>, "alpha_unspecified")   \* packed 0xBBGGRR
     \/ Set("hexrt", 0, col)                                       \* c := Color(c.hex)
     \/ \E h \in {R(0), R(90), R(200), R(330), R(-300)} : SetN("hue", h, col, "hsl_write")
     \/ \E s \in {Q(1, 4), R(1)} : SetN("saturation", s, col, "hsl_write")
     \/ \E l \in {Q(1, 4), Q(3, 4)} : SetN("lightness", l, col, "hsl_write")
  /\ hslv' = ToHsl(col')
  /\ UNCHANGED <<mode, arg>>
\* after an HSL write the exact 8-bit value is left open (rounding); such states are terminal
\* after an HSL or fractional-opacity write col holds the colour BEFORE the write and note names the leeway
\* (8-bit rounding); the harness checks the relation and the history stops there

\* simulation mode: long accessor histories (every successor of every visited state is emitted from length 4 on)
InitAcc == mode = "acc" /\ arg \in Starts /\ col = arg /\ hist = <<>> /\ note = "" /\ hslv = ToHsl(col)
Emit == Len(hist) >= 4 => PrintT(<<"CASE", arg, col, hist, note, hslv>>)
\* ---- the specification's own laws -------------------------------------------
HexRoundTrip == (mode = "hex" /\ Len(arg) = 8) =>
   LET H(v) == <<CHOOSE c \in HexDigits : HexVal(c) = v \div 16, CHOOSE c \in HexDigits : HexVal(c) = v % 16>> IN
   H(col[1]) \o H(col[2]) \o H(col[3]) \o H(col[4]) = arg
GreyHasNoSaturation == (mode = "acc" /\ col[1] = col[2] /\ col[2] = col[3]) => ToHsl(col)[2] = RZero
SetterIsolation == [][mode = "acc" /\ note' = "" /\ hist'[Len(hist')][1] \in {"red", "green", "blue", "alpha", "opacity"} =>
                       Cardinality({i \in 1..4 : col'[i] # col[i]}) <= 1]_vars
HslInverse == (mode = "hsl" /\ \A i \in 1..3 : col[i][2] = 1) =>
   \* when the channels come out integral, converting to HSL and back gives the same channels
   LET t == ToHsl(<<col[1][1], col[2][1], col[3][1]>>)
       c == FromHsl(RMul(t[1], R(360)), RMul(t[2], R(100)), RMul(t[3], R(100)), NONE)
   IN c[1] = col[1] /\ c[2] = col[2] /\ c[3] = col[3]
=============================================================================
