------------------------------ MODULE MC_C08 ------------------------------
(* C08 cases.  "bez": every 1-D control tuple over 0..V (cubic and          *)
(* quadratic) with its bracket, on the x axis and on the y axis.  "arc":    *)
(* lattice ellipses x start angle x extent x direction with the four sides. *)
EXTENDS BBox, TLC
CONSTANTS V, Full
VARIABLES kind, arg, exp
vars == <<kind, arg, exp>>
Angs == { <<R(1), R(0)>>, <<R(0), R(1)>>, <<R(-1), R(0)>>, <<R(0), R(-1)>>,
          <<Q(3, 5), Q(4, 5)>>, <<Q(-4, 5), Q(3, 5)>>, <<Q(-5, 13), Q(-12, 13)>>, <<Q(12, 13), Q(-5, 13)>> }
Exts == (Angs \ {<<R(1), R(0)>>}) \cup { <<Q(4, 5), Q(-3, 5)>>, <<Q(40, 41), Q(9, 41)>> }
Rots == IF Full THEN { <<R(1), R(0)>>, <<R(0), R(1)>>, <<R(-1), R(0)>>, <<Q(3, 5), Q(4, 5)>>, <<Q(12, 13), Q(-5, 13)>>, <<Q(-4, 5), Q(3, 5)>> }
        ELSE { <<R(1), R(0)>>, <<R(0), R(1)>>, <<Q(3, 5), Q(4, 5)>> }
Radii == IF Full THEN { <<R(5), R(5)>>, <<R(10), R(4)>>, <<R(3), R(7)>>, <<R(100), R(1)>> } ELSE { <<R(5), R(5)>>, <<R(10), R(4)>> }
\* member geometry in its own user space
RectBox == <<R(1), R(2), R(31), R(42)>>                 \* Rect(1, 2, 30, 40)
PathBox == <<R(-4), R(0), R(10), R(8)>>                 \* M0,0 L10,5 L-4,8 z  (sub-path 0)
Path2Box == <<R(20), R(20), R(26), R(23)>>              \* second sub-path M20,20 L26,23
ScaleBox(b, k) == <<RMul(b[1], k), RMul(b[2], k), RMul(b[3], k), RMul(b[4], k)>>
\* a shape with its own transform scale(k): box in the requested space, grown by half the effective stroke width
ShapeBox(b, stroke, sw, k, ws, tr) ==
  LET geo == IF tr THEN ScaleBox(b, k) ELSE b
      d   == IF ws /\ stroke = "red" THEN RDiv(IF tr THEN RMul(sw, k) ELSE sw, R(2)) ELSE RZero
  IN Grow(geo, d)
CircleBox  == <<R(-2), R(-1), R(12), R(13)>>            \* Circle(5, 6, 7)
EllipseBox == <<R(-2), R(3), R(12), R(9)>>              \* Ellipse(5, 6, 7, 3)
PolyBox    == <<R(-2), R(0), R(6), R(7)>>               \* Polyline/Polygon (0,0) (3,4) (6,1) (-2,7)
LineBox    == <<R(1), R(2), R(3), R(5)>>                \* SimpleLine(1, 2, 3, 5)
\* an ellipse whose own transform is rotate(90) then scale(k): (x, y) -> k (-y, x)
EllipseRotBox(stroke, sw, k, ws, tr) ==
  LET geo == IF tr THEN ScaleBox(<<R(-9), R(-2), R(-3), R(12)>>, k) ELSE EllipseBox
      d   == IF ws /\ stroke = "red" THEN RDiv(IF tr THEN RMul(sw, k) ELSE sw, R(2)) ELSE RZero
  IN Grow(geo, d)
ContBox(cont, stroke, sw, k, ws, tr) ==
  CASE cont = "circle"   -> ShapeBox(CircleBox, stroke, sw, k, ws, tr)
    [] cont = "ellipse"  -> ShapeBox(EllipseBox, stroke, sw, k, ws, tr)
    [] cont = "polyline" -> ShapeBox(PolyBox, stroke, sw, k, ws, tr)
    [] cont = "polygon"  -> ShapeBox(PolyBox, stroke, sw, k, ws, tr)
    [] cont = "line"     -> ShapeBox(LineBox, stroke, sw, k, ws, tr)
    [] cont = "ellipse_rot" -> EllipseRotBox(stroke, sw, k, ws, tr)
    [] cont = "rect"    -> ShapeBox(RectBox, stroke, sw, k, ws, tr)
    [] cont = "path"    -> ShapeBox(Union(PathBox, Path2Box), stroke, sw, k, ws, tr)
    [] cont = "subpath" -> ShapeBox(PathBox, stroke, sw, k, ws, tr)
    [] cont = "subpath_open" -> ShapeBox(Path2Box, stroke, sw, k, ws, tr)        \* the second, open sub-path: its last segment reaches furthest
    \* group { rect (the stroke under test), path (always stroked red, width 2) }, the group carries scale(k)
    [] cont = "group"   -> Union(ShapeBox(RectBox, stroke, sw, k, ws, tr),
                                 ShapeBox(Union(PathBox, Path2Box), "red", R(2), k, ws, tr))
    \* group { group { rect } , path }
    [] cont = "nested"  -> Union(ShapeBox(RectBox, stroke, sw, k, ws, tr),
                                 ShapeBox(Union(PathBox, Path2Box), "red", R(2), k, ws, tr))
\* <use href="#rect" x="10" y="20" transform="scale(k)">: the referenced rect drawn through translate(10,20) then scale(k)
ShiftBox(b, dx, dy) == <<RAdd(b[1], dx), RAdd(b[2], dy), RAdd(b[3], dx), RAdd(b[4], dy)>>
UseBox(stroke, sw, k, ws, tr) ==
  LET geo == IF tr THEN ScaleBox(ShiftBox(RectBox, R(10), R(20)), k) ELSE RectBox
      d   == IF ws /\ stroke = "red" THEN RDiv(IF tr THEN RMul(sw, k) ELSE sw, R(2)) ELSE RZero
  IN Grow(geo, d)
\* <use href="#g" x="10" y="20" transform="scale(k)"> of a group { rect (stroke under test), path (stroked red, width 2) }
UseGroupBox(stroke, sw, k, ws, tr) ==
  LET part(b, st, w) == LET geo == IF tr THEN ScaleBox(ShiftBox(b, R(10), R(20)), k) ELSE b
                            d == IF ws /\ st = "red" THEN RDiv(IF tr THEN RMul(w, k) ELSE w, R(2)) ELSE RZero
                        IN Grow(geo, d)
  IN Union(part(RectBox, stroke, sw), part(Union(PathBox, Path2Box), "red", R(2)))
Init ==
  \/ /\ kind = "bez"
     /\ \E n \in {3, 4}, axis \in {1, 2} : \E a \in [1..n -> 0..V] : arg = <<axis, a>> /\ exp = Bracket(a)
  \/ /\ kind = "arc"
     /\ \E c \in {<<R(2), R(-3)>>}, r \in Radii, ph \in Rots, th0 \in Angs, e \in Exts, dir \in {1, -1}, full \in {FALSE} :
          LET u == <<RMul(r[1], ph[1]), RMul(r[1], ph[2])>>
              v == <<RNeg(RMul(r[2], ph[2])), RMul(r[2], ph[1])>> IN
          /\ arg = <<c, u, v, th0, e, dir, full>>
          /\ exp = ArcBox(c, u, v, th0, e, dir, full)
  \/ /\ kind = "arc"        \* a full turn and more: the box of the whole ellipse
     /\ \E c \in {<<R(2), R(-3)>>}, r \in Radii, ph \in Rots, th0 \in {<<R(1), R(0)>>, <<Q(3, 5), Q(4, 5)>>}, dir \in {1, -1} :
          LET u == <<RMul(r[1], ph[1]), RMul(r[1], ph[2])>>
              v == <<RNeg(RMul(r[2], ph[2])), RMul(r[2], ph[1])>> IN
          /\ arg = <<c, u, v, th0, <<R(0), R(1)>>, dir, TRUE>>
          /\ exp = ArcBox(c, u, v, th0, <<R(0), R(1)>>, dir, TRUE)
  \/ /\ kind = "cont"       \* shapes and containers: union of members, stroke growth only when painted
     /\ \E cont \in {"rect", "path", "subpath", "subpath_open", "group", "nested", "circle", "ellipse", "polyline", "polygon", "line", "ellipse_rot"}, stroke \in {"none", "unset", "red"},
           sw \in {R(3), Q(1, 2), R(0)}, k \in {R(1), R(2), Q(1, 2)}, ws \in BOOLEAN, tr \in BOOLEAN :
          /\ arg = <<cont, stroke, sw, k, ws, tr>>
          /\ exp = ContBox(cont, stroke, sw, k, ws, tr)
  \/ /\ kind = "cont"       \* a use element (parsed document, not reified): the box of what it renders
     /\ \E stroke \in {"none", "unset", "red"}, sw \in {R(3), Q(1, 2)}, k \in {R(1), R(2), Q(1, 2)}, ws \in BOOLEAN, tr \in BOOLEAN :
          /\ \/ arg = <<"use", stroke, sw, k, ws, tr>> /\ exp = UseBox(stroke, sw, k, ws, tr)
             \/ arg = <<"use_group", stroke, sw, k, ws, tr>> /\ exp = UseGroupBox(stroke, sw, k, ws, tr)
Next == UNCHANGED vars
\* the bracket is well formed: minimum not above maximum, end points inside
Sane == kind = "bez" =>
   LET a == arg[2]  D == exp[5] IN
   /\ exp[2] <= exp[3] /\ exp[2] <= a[1] * D /\ a[Len(a)] * D <= exp[3]
   /\ (exp[2] - exp[1]) * 1000 <= 5 * D          \* the bracket is at most 0.005 wide
\* an arc's extreme side is never inside the box of its end points
ArcSidesOutside == kind = "arc" =>
   \A i \in 1..4 : exp[i][1] = "sq" => RLt(RZero, exp[i][4]) \/ exp[i][4] = RZero
=============================================================================
