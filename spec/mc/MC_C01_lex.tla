---------------------------- MODULE MC_C01_lex ----------------------------
(* Every string of length <= MaxLen over a small alphabet, classified and   *)
(* tokenised by the PathLex number-list grammar.  Each initial state is one *)
(* case: the harness feeds "M0,0H" \o s to the real parser.                 *)
EXTENDS PathLex, TLC
CONSTANTS MaxLen
Alpha == {"0", "1", "5", ".", "-", "+", "e", ",", " "}
VARIABLES s, res
vars == <<s, res>>
Init == /\ s \in UNION {[1..n -> Alpha] : n \in 1..MaxLen}
        /\ res = LexNumbers(s)
Next == UNCHANGED vars
\* sanity of the specification itself
OkHasNumbers == res[1] \in {"ok", "lax"} => Len(res[2]) >= 1
StatusTotal  == res[1] \in {"ok", "lax", "bad"}
\* a string made only of digits is one number equal to its decimal value
DigitsOnly == (\A i \in 1..Len(s) : s[i] \in Digit) =>
                 res = <<"ok", <<<<FALSE, TakeDigits(s, 1, 0, 0)[2], 0>>>>>>
=============================================================================
