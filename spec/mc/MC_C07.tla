------------------------------ MODULE MC_C07 ------------------------------
(* C07: d() -> parse round trip.  Paths come from PathInterp behaviours (so *)
(* that the as-parsed relative/smooth flags exist); TLC checks that the     *)
(* writer design round-trips through the interpreter design for all nine    *)
(* option pairs; each state is replayed on the real library.                *)
EXTENDS PathWrite, TLC
CONSTANTS MaxCmds, NVar
Pool(v) == IF v = 1 THEN <<3, 1, -2, 5, 4, -3>> ELSE <<-1, 4, 6, 2, -5, -2>>
\* variant 1: radii comfortably large (well conditioned); variant 2: radii too small (scaled up, exact half turn)
ArcPool(v) == IF v = 1 THEN <<8, 6, 30, 0, 1, 4, -3>> ELSE <<2, 7, -45, 1, 0, -5, 2>>
Args(l, v) == IF Upper(l) = "A" THEN ArcPool(v) ELSE SubSeq(Pool(v), 1, Arity(l))
\* mem = <<last control, degree, end point>> of the most recent curve, however long ago: used to build
\* the adversarial case "a curve that LOOKS smooth with respect to a curve that is no longer adjacent"
VARIABLE mem
allvars == <<vars, mem>>
InitW == Init /\ mem = <<NONE, 0, NONE>>
Generic  == /\ Len(hist) < MaxCmds
            /\ \E l \in Letters, v \in 1..NVar, impl \in BOOLEAN : Do(<<l, Args(l, v), impl, FALSE>>)
MoveHere == /\ Len(hist) < MaxCmds /\ cur # NONE /\ deg # 0 /\ Do(<<"M", cur, FALSE, FALSE>>)
MirrorC  == /\ Len(hist) <= MaxCmds /\ mem[2] = 3 /\ deg # 3 /\ cur = mem[3]
            /\ Do(<<"C", Refl(mem[1], cur) \o <<6, 2, -5, -2>>, FALSE, FALSE>>)
MirrorQ  == /\ Len(hist) <= MaxCmds /\ mem[2] = 2 /\ deg # 2 /\ cur = mem[3]
            /\ Do(<<"Q", Refl(mem[1], cur) \o <<-5, -2>>, FALSE, FALSE>>)
Next == /\ (Generic \/ MoveHere \/ MirrorC \/ MirrorQ)
        /\ mem' = IF deg' # 0 THEN <<ctl', deg', cur'>> ELSE mem
\* as-parsed flags of segment i (no completing closes here, so segment i <-> command i)
Flags == [i \in 1..Len(hist) |-> <<IsRel(hist[i][1]), Upper(hist[i][1]) \in {"S", "T"}>>]
RoundTrip == RoundTrips(segs, Flags)
=============================================================================
