------------------------------ MODULE MC_C15 ------------------------------
(* C15 cases: "bez" collinear Beziers (every 1-D control tuple with         *)
(* rational critical points) along two directions; "circ" circular arcs of  *)
(* k quarter turns; "walk" polyline paths with moves at t = j/8; "hist"     *)
(* query / edit histories on a path (point(t) is a function of the CURRENT  *)
(* segments only).                                                          *)
EXTENDS ArcLen, TLC, FiniteSets
CONSTANTS V, MaxOps
VARIABLES kind, arg, exp, hist
vars == <<kind, arg, exp, hist>>
\* Pythagorean edge vectors <<dx, dy, length>>
Dirs == << <<3, 4, 5>>, <<4, -3, 5>>, <<-5, 12, 13>>, <<0, 7, 7>>, <<-6, 0, 6>>, <<8, 15, 17>>, <<-3, -4, 5>> >>
RECURSIVE Poly(_, _, _)
\* pieces from a start point following direction indices; index 0 = a move by (10, -20)
Poly(pt, ds, i) ==
  IF i > Len(ds) THEN <<>>
  ELSE IF ds[i] = 0 THEN <<<<pt, <<pt[1] + 10, pt[2] - 20>>, 0>>>> \o Poly(<<pt[1] + 10, pt[2] - 20>>, ds, i + 1)
  ELSE LET d == Dirs[ds[i]]  q == <<pt[1] + d[1], pt[2] + d[2]>> IN <<<<pt, q, d[3]>>>> \o Poly(q, ds, i + 1)
Ts == {Q(j, 8) : j \in 0..8}
WalkAll(p) == [j \in 1..9 |-> Walk(p, Q(j - 1, 8))]

Init ==
  \/ /\ kind = "bez" /\ hist = <<>>
     /\ \E n \in {3, 4}, d \in {1, 2} : \E a \in [1..n -> 0..V] :
          /\ Decidable(a)
          /\ arg = <<a, d>>
          /\ exp = RMul(TV(a), IF d = 1 THEN ROne ELSE R(5))       \* direction (1,0) or (3,4)
  \/ /\ kind = "circ" /\ hist = <<>>
     /\ \E r \in {R(5), Q(1, 2), R(100)}, k \in 1..4, dir \in {1, -1}, rot \in 0..3 :
          arg = <<r, k, dir, rot>> /\ exp = RDiv(RMul(r, R(k)), R(2))   \* times pi
  \/ /\ kind = "walk" /\ hist = <<>>
     /\ \E n \in 1..3 : \E ds \in [1..n -> 0..4] :
          /\ ds[n] # 0 /\ (\A i \in 1..(n - 1) : ~(ds[i] = 0 /\ ds[i + 1] = 0))
          /\ arg = ds /\ exp = WalkAll(Poly(<<2, 1>>, ds, 1))
  \/ /\ kind = "hist" /\ arg = <<1>> /\ hist = <<>> /\ exp = WalkAll(Poly(<<2, 1>>, <<1>>, 1))
\* histories: the path is described by its direction word; edits change the word, queries leave it
\* the path may also be scaled in place by 2 and reified ("scale2"): the whole geometry is then K times the word's
\* geometry, K = 2^(number of scale2 events); later edits are made at that scale
RECURSIVE Pow2Of(_, _)
Pow2Of(h, i) == IF i > Len(h) THEN 1 ELSE (IF h[i][1] \in {"scale2", "subscale2"} THEN 2 ELSE 1) * Pow2Of(h, i + 1)
ScaleSet(S, k) == {<<RMul(q[1], R(k)), RMul(q[2], R(k))>> : q \in S}
Scaled(w, k) == LET a == WalkAll(Poly(<<2, 1>>, w, 1)) IN [j \in 1..9 |-> ScaleSet(a[j], k)]
Edit(name, w) == /\ hist' = Append(hist, <<name, w>>) /\ arg' = w /\ exp' = Scaled(w, Pow2Of(hist', 1))
Next == /\ kind = "hist" /\ Len(hist) < MaxOps /\ UNCHANGED kind
        /\ (IF hist = <<>> THEN TRUE ELSE hist[Len(hist)][1] \notin {"reverse", "subreverse"})
        /\ \/ (hist' = Append(hist, <<"query", arg>>) /\ UNCHANGED <<arg, exp>>)
           \/ (hist' = Append(hist, <<"length", arg>>) /\ UNCHANGED <<arg, exp>>)
           \* a measurement with a coarse error setting: a query like the others (what is asked later is answered as asked)
           \/ (hist' = Append(hist, <<"coarse", arg>>) /\ UNCHANGED <<arg, exp>>)
           \/ \E d \in {2, 3, 4} : Len(arg) < 4 /\ Edit("append", Append(arg, d))
           \/ (Len(arg) >= 2 /\ Edit("delete_last", SubSeq(arg, 1, Len(arg) - 1)))
           \/ \E d \in {2, 5} : Edit("replace_last", Append(SubSeq(arg, 1, Len(arg) - 1), d))
           \/ \E d \in {3, 6} : Len(arg) < 4 /\ Edit("extend_str", Append(arg, d))
           \/ (Pow2Of(hist, 1) < 4 /\ Edit("scale2", arg))
           \* the same map applied through the view of the (only) sub-path, which rewrites the path's segments in place
           \/ (Pow2Of(hist, 1) < 4 /\ (\A i \in 1..Len(arg) : arg[i] # 0) /\ Edit("subscale2", arg))
           \* reversing the (single sub-path, move-free) path: the walk runs the other way; kept last in a history
           \/ \E nm \in {"reverse", "subreverse"} :          \* (subreverse: through the view of the only sub-path)
                (\A i \in 1..Len(arg) : arg[i] # 0) /\ hist' = Append(hist, <<nm, arg>>) /\ arg' = arg
                /\ exp' = [j \in 1..9 |-> exp[10 - j]]
\* simulation mode: long query/edit histories
InitHist == kind = "hist" /\ arg = <<1>> /\ hist = <<>> /\ exp = WalkAll(Poly(<<2, 1>>, <<1>>, 1))
Emit == Len(hist) >= 5 => PrintT(<<"CASE", arg, exp, hist>>)
\* ---- sanity of the specification ------------------------------------------
TVAtLeastChord == kind = "bez" => RLe(RMul(RAbs(R(arg[1][Len(arg[1])] - arg[1][1])), IF arg[2] = 1 THEN ROne ELSE R(5)), exp)
WalkEnds == kind \in {"walk", "hist"} => (exp[1] # {} /\ exp[9] # {})
WalkMonotone == kind = "walk" => \A j \in 1..9 : Cardinality(exp[j]) \in {1, 2}
=============================================================================
