---------------------------- MODULE MC_C01_arc ----------------------------
(* The printer side of PathLex for one elliptical-arc argument group: the   *)
(* seven tokens are spelled (several spellings per token) and joined with   *)
(* every choice of separator, including none.  PathLex decides what each    *)
(* resulting string means (packed flags "0110,10", "1-2", ".5.5").          *)
EXTENDS PathLex, TLC
CONSTANTS Full
VARIABLES s, res, want
vars == <<s, res, want>>
Seps == IF Full THEN {<<>>, <<" ">>, <<",">>, <<" ", ",", " ">>} ELSE {<<>>, <<" ">>, <<",">>}
Pick(S, one) == IF Full THEN S ELSE {one}
\* spelling, exact value
RX  == {<<<<"5">>, <<FALSE, 5, 0>>>>, <<<<"2", ".", "5">>, <<FALSE, 25, -1>>>>}
RY  == {<<<<"3">>, <<FALSE, 3, 0>>>>, <<<<".", "5", "e", "1">>, <<FALSE, 5, 0>>>>}
ROT == {<<<<"3", "0">>, <<FALSE, 30, 0>>>>, <<<<"-", "4", "5">>, <<TRUE, 45, 0>>>>}
FL  == {<<<<"0">>, 0>>, <<<<"1">>, 1>>}
XS  == {<<<<"4">>, <<FALSE, 4, 0>>>>, <<<<"-", "3">>, <<TRUE, 3, 0>>>>}
YS  == {<<<<"-", "3">>, <<TRUE, 3, 0>>>>, <<<<".", "5">>, <<FALSE, 5, -1>>>>}
Init == \E rx \in Pick(RX, <<<<"5">>, <<FALSE, 5, 0>>>>), ry \in Pick(RY, <<<<".", "5", "e", "1">>, <<FALSE, 5, 0>>>>), rot \in ROT, fa \in FL, fs \in FL, x \in XS, y \in YS,
           sp \in [1..6 -> Seps] :
          /\ s = rx[1] \o sp[1] \o ry[1] \o sp[2] \o rot[1] \o sp[3] \o fa[1] \o sp[4]
                 \o fs[1] \o sp[5] \o x[1] \o sp[6] \o y[1]
          /\ want = <<rx[2], ry[2], rot[2], fa[2], fs[2], x[2], y[2],
                      \A i \in 1..6 : sp[i] # <<>>>>
          /\ res = LexArcGroup(s)
Next == UNCHANGED vars
\* PrintThenLex: with a separator in every gap the group lexes back to the printed tokens
PrintThenLex == want[8] => res = <<"ok", SubSeq(want, 1, 7)>>
=============================================================================
