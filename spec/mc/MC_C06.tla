------------------------------ MODULE MC_C06 ------------------------------
(* C06: every shape of the table x every transform class.  exp = geometry  *)
(* abstraction (PathOps) of the SVG 2 equivalent path, in user space; the   *)
(* harness maps it through the transform.                                   *)
EXTENDS Shapes, Affine, TLC
CONSTANTS Full
VARIABLES shape, tf, segs, geo
vars == <<shape, tf, segs, geo>>
PO == INSTANCE PathOps

I(n) == R(n)
Rx == {AUTO, <<"abs", I(0)>>, <<"abs", I(5)>>, <<"abs", I(20)>>, <<"pct", I(10)>>}
Ry == {AUTO, <<"abs", I(0)>>, <<"abs", I(8)>>, <<"abs", I(30)>>, <<"pct", I(25)>>}
RectSizes == IF Full THEN {<<I(30), I(40)>>, <<I(40), I(30)>>, <<I(0), I(40)>>, <<I(30), I(0)>>, <<Q(1, 2), I(300)>>}
             ELSE {<<I(30), I(40)>>, <<I(0), I(40)>>, <<I(30), I(0)>>}
Pts == << <<I(0), I(0)>>, <<I(3), I(4)>>, <<I(6), I(1)>>, <<I(3), I(4)>>, <<I(3), I(4)>>, <<I(-2), I(7)>> >>
Shapes ==
  {<<"rect", <<I(1), I(2), s[1], s[2], rx, ry>>>> : s \in RectSizes, rx \in Rx, ry \in Ry} \cup
  {<<"circle", <<I(5), I(6), r>>>> : r \in {I(7), I(0), Q(1, 2)}} \cup
  {<<"ellipse", <<I(5), I(6), r[1], r[2]>>>> : r \in {<<I(7), I(3)>>, <<I(3), I(7)>>, <<I(0), I(3)>>, <<I(7), I(0)>>}} \cup
  {<<"line", <<I(1), I(2), I(3), I(5)>>>>, <<"line", <<I(1), I(2), I(1), I(2)>>>>} \cup
  {<<k, SubSeq(Pts, 1, n)>> : k \in {"polyline", "polygon"}, n \in 0..6}
\* transform classes: identity, translation, similarity, reflection, anisotropic scale, shear, rotated anisotropic
Transforms ==
  {Id, Translate(I(3), I(-4)), Rotate(I(0), I(1)), Then(Rotate(Q(3, 5), Q(4, 5)), Scale(I(2), I(2))),
   Scale(I(-1), I(1)), Scale(I(2), I(3)), Skew(Q(3, 4), RZero), Then(Scale(I(2), I(3)), Rotate(Q(3, 5), Q(4, 5))),
   Then(Rotate(Q(3, 5), Q(4, 5)), Scale(I(2), I(3))),
   \* maps that differ from the identity in a single entry
   Translate(I(0), I(5)), Scale(I(1), I(3)), Scale(I(3), I(1)),
   \* reflections whose diagonal entries vanish (the mirror line is a diagonal)
   <<I(0), I(1), I(1), I(0), I(0), I(0)>>, <<I(0), I(2), I(3), I(0), I(1), I(-1)>>,
   \* shears in the negative direction (both off-diagonal entries <= 0), with a translation
   <<I(1), I(0), Q(-3, 4), I(1), I(3), I(4)>>, <<Q(3, 2), Q(-2, 5), Q(-7, 10), I(2), I(10), I(-5)>>} \cup
  (IF Full THEN {Translate(I(5), I(0)), Skew(RZero, Q(5, 12)), Scale(I(-2), I(-3)), Then(Translate(I(1), I(1)), Scale(I(1), I(-1))), Skew(RZero, Q(5, 12)),
                 Scale(Q(1, 1000), Q(1, 1000)), <<I(1), I(2), I(3), I(4), I(5), I(6)>>} ELSE {})
Init == /\ shape \in Shapes /\ tf \in Transforms
        /\ segs = EquivalentPath(shape)
        /\ geo = PO!Geometry(segs)
Next == UNCHANGED vars
\* the equivalent path is connected and every shape is a single closed or open sub-path
Connected == PO!GeoConnected(geo) /\ Len(geo) <= 1
\* the corner-radius rule is total, within range and idempotent
RadiiInRange == shape[1] = "rect" =>
   LET p == shape[2]  u == UsedRadii(p[3], p[4], p[5], p[6]) IN
   /\ RLe(RZero, u[1]) /\ RLe(RMul(R(2), u[1]), p[3]) /\ RLe(RZero, u[2]) /\ RLe(RMul(R(2), u[2]), p[4])
   /\ UsedRadii(p[3], p[4], <<"abs", u[1]>>, <<"abs", u[2]>>) = u
=============================================================================
