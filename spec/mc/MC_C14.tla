------------------------------ MODULE MC_C14 ------------------------------
(* C14: documents in which fill / stroke / stroke-width are set through    *)
(* every subset of sources, inheritance chains, use, currentColor and       *)
(* opacity; rendered by DocCore with the DocPaint cascade.                  *)
EXTENDS Rat, Sequences, TLC, FiniteSets, Json, IOUtils
VARIABLES kind, doc, sheet, callerColor, out
vars == <<kind, doc, sheet, callerColor, out>>
AF == INSTANCE Affine
DP == INSTANCE DocPaint
I(n) == R(n)
A(n) == <<"abs", I(n)>>
NoL == <<"none", RZero>>
MyTF(k) == CASE k = 0 -> AF!Id [] k = 1 -> AF!Translate(I(10), I(20)) [] k = 2 -> AF!Scale(I(2), I(3))
             [] k = 3 -> AF!Rotate(I(0), I(1)) [] k = 4 -> AF!Skew(Q(3, 4), RZero) [] k = 5 -> AF!Scale(I(-1), I(1))
             [] k = 6 -> AF!Then(AF!Scale(I(2), I(3)), AF!Rotate(Q(3, 5), Q(4, 5)))
             [] k = 7 -> AF!Scale(I(-2), I(3))
MyPathGeo(k) == <<>>
MyPaintOf(pc, tok, ctm) == DP!Cascade(pc, tok, ctm)
INSTANCE DocCore WITH TF <- MyTF, PathGeo <- MyPathGeo, PaintOf <- MyPaintOf

E0 == <<"end", "", 0, FALSE, <<>>, <<>>>>
Root == <<"svg", "", 0, FALSE, <<NoL, NoL, A(200), A(100), <<>>, <<"xMidYMid", "">>>>, <<<<>>, <<>>, <<>>>>>>
RectGeo == <<A(1), A(2), A(30), A(40), NoL, NoL>>
Props == {"fill", "stroke", "stroke-width"}
Sources == {"attr", "*", "type", "class", "typeclass", "id", "inline"}
RuleSources == <<"*", "type", "class", "typeclass", "id">>
\* a distinct value per (property, source)
Colour(src) == CASE src = "attr" -> "red" [] src = "*" -> "blue" [] src = "type" -> "lime" [] src = "class" -> "yellow"
                 [] src = "typeclass" -> "teal" [] src = "id" -> "navy" [] src = "inline" -> "maroon"
Width(src) == CASE src = "attr" -> I(2) [] src = "*" -> I(3) [] src = "type" -> I(4) [] src = "class" -> I(5)
                [] src = "typeclass" -> I(6) [] src = "id" -> I(7) [] src = "inline" -> I(8)
V(p, src) == IF p = "stroke-width" THEN Width(src) ELSE Colour(src)
RuleFor(src, p) == CASE src = "*" -> <<"*", "", <<<<p, V(p, src)>>>>>>
                     [] src = "type" -> <<"type", "rect", <<<<p, V(p, src)>>>>>>
                     [] src = "class" -> <<"class", "k", <<<<p, V(p, src)>>>>>>
                     [] src = "typeclass" -> <<"typeclass", <<"rect", "k">>, <<<<p, V(p, src)>>>>>>
                     [] src = "id" -> <<"id", "r", <<<<p, V(p, src)>>>>>>
Rev(s) == [i \in 1..Len(s) |-> s[Len(s) + 1 - i]]
SheetFor(S, p, order) ==
  LET sel == SelectSeq(RuleSources, LAMBDA x : x \in S)
      rules == [i \in 1..Len(sel) |-> RuleFor(sel[i], p)]
  IN IF order = "asc" THEN rules ELSE Rev(rules)
Pairs(cond, p, src) == IF cond THEN <<<<p, V(p, src)>>>> ELSE <<>>

\* ---- chains ----------------------------------------------------------------
Choices == {"none", "attr", "inline", "class"}
LevelColour(l) == CASE l = 1 -> "red" [] l = 2 -> "lime" [] l = 3 -> "navy"
LevelPaint(l, fc, wc) ==
  << (IF fc = "attr" THEN <<<<"fill", LevelColour(l)>>>> ELSE <<>>) \o (IF wc THEN <<<<"stroke-width", I(l + 1)>>, <<"stroke", "teal">>>> ELSE <<>>),
     IF fc = "class" THEN <<IF l = 1 THEN "k1" ELSE IF l = 2 THEN "k2" ELSE "k3">> ELSE <<>>,
     IF fc = "inline" THEN <<<<"fill", LevelColour(l)>>>> ELSE <<>> >>
ChainSheet == << <<"class", "k1", <<<<"fill", "red">>>>>>, <<"class", "k2", <<<<"fill", "lime">>>>>>, <<"class", "k3", <<<<"fill", "navy">>>>>> >>

Mk(k, d, sh, cc) == kind = k /\ doc = d /\ sheet = sh /\ callerColor = cc
                    /\ out = RenderDoc(d, <<<<>>, <<>>, 0>>, DP!Paint0(cc, sh))
NoPaint == <<<<>>, <<>>, <<>>>>
\* the winner depends only on the set of sources, never on the rule order
Winner(S, p) == IF "inline" \in S THEN "inline" ELSE IF "id" \in S THEN "id" ELSE IF "typeclass" \in S THEN "typeclass"
                ELSE IF "class" \in S THEN "class" ELSE IF "type" \in S THEN "type" ELSE IF "*" \in S THEN "*"
                ELSE IF "attr" \in S THEN "attr" ELSE "default"
\* display is an ordinary cascaded property (not inherited, but display:none removes the whole subtree): the document is
\* written with display set through the chosen sources, the rendering is computed with the cascaded value
DispOf(sh, tok) == DP!Val(sh, tok, "display", "inline") = "none"
WithDisp(d, sh) == [i \in 1..Len(d) |-> IF d[i][1] = "end" THEN d[i] ELSE [d[i] EXCEPT ![4] = DispOf(sh, d[i])]]
MkD(k, d, sh, cc) == kind = k /\ doc = d /\ sheet = sh /\ callerColor = cc
                     /\ out = RenderDoc(WithDisp(d, sh), <<<<>>, <<>>, 0>>, DP!Paint0(cc, sh))
DispRule(src, v) == CASE src = "*" -> <<"type", "g", <<<<"display", v>>>>>>      \* (a universal rule would hide the root: a type rule for g stands in)
                      [] src = "type" -> <<"type", "rect", <<<<"display", v>>>>>>
                      [] src = "class" -> <<"class", "k", <<<<"display", v>>>>>>
                      [] src = "typeclass" -> <<"typeclass", <<"rect", "k">>, <<<<"display", v>>>>>>
                      [] src = "id" -> <<"id", "r", <<<<"display", v>>>>>>
Other(v) == IF v = "none" THEN "inline" ELSE "none"
Init ==
  \/ \E p \in Props, S \in SUBSET Sources, order \in {"asc", "desc"} :
        Mk("sources",
           <<Root, <<"rect", "r", 0, FALSE, RectGeo,
                     <<Pairs("attr" \in S, p, "attr") \o (IF p = "stroke-width" THEN <<<<"stroke", "red">>>> ELSE <<>>), <<"k">>, Pairs("inline" \in S, p, "inline")>>>>, E0>>,
           SheetFor(S, p, order), "black")
  \/ \E f1 \in Choices, f2 \in Choices, f3 \in Choices, w1 \in BOOLEAN, w2 \in BOOLEAN, w3 \in BOOLEAN, tf \in {0, 2, 4, 5, 6, 7} :
        Mk("chain",
           <<Root, <<"g", "", tf, FALSE, <<>>, LevelPaint(1, f1, w1)>>, <<"g", "", 0, FALSE, <<>>, LevelPaint(2, f2, w2)>>,
             <<"rect", "", 0, FALSE, RectGeo, LevelPaint(3, f3, w3)>>, E0, E0, E0>>,
           ChainSheet, "black")
  \/ \E df \in {"none", "attr"}, uf \in {"none", "inline"}, us \in {"none", "attr"}, gtf \in {0, 2} :
        Mk("use",
           <<Root, <<"defs", "", 0, FALSE, <<>>, NoPaint>>,
             <<"rect", "b", 0, FALSE, RectGeo, <<IF df = "attr" THEN <<<<"fill", "yellow">>>> ELSE <<>>, <<>>, <<>>>>>>, E0,
             <<"g", "", gtf, FALSE, <<>>, <<<<<<"fill", "lime">>, <<"stroke", "navy">>, <<"stroke-width", I(3)>>>>, <<>>, <<>>>>>>,
             <<"use", "", 1, FALSE, <<"b", A(5), NoL>>,
               <<IF us = "attr" THEN <<<<"stroke", "teal">>>> ELSE <<>>, <<>>, IF uf = "inline" THEN <<<<"fill", "maroon">>>> ELSE <<>>>>>>, E0, E0>>,
           <<>>, "black")
  \* one definition painted with currentColor, instantiated where different colours are in force (the colour is resolved per instance)
  \/ \E which \in {"fill", "stroke"}, c1 \in {"red", "none"}, c3 \in {"lime", "none"}, cc \in {"black", "teal"}, defcol \in {"none", "yellow"} :
        Mk("usecurrent",
           <<Root, <<"defs", "", 0, FALSE, <<>>, IF defcol = "none" THEN NoPaint ELSE <<<<<<"color", defcol>>>>, <<>>, <<>>>>>>,
             <<"rect", "b", 0, FALSE, RectGeo, <<<<<<which, "currentColor">>>>, <<>>, <<>>>>>>, E0,
             <<"g", "", 0, FALSE, <<>>, IF c1 = "none" THEN NoPaint ELSE <<<<<<"color", c1>>>>, <<>>, <<>>>>>>,
             <<"use", "", 0, FALSE, <<"b", A(5), NoL>>, NoPaint>>, E0,
             <<"g", "", 0, FALSE, <<>>, <<<<<<"color", "blue">>>>, <<>>, <<>>>>>>,
             <<"use", "", 0, FALSE, <<"b", A(50), NoL>>, NoPaint>>, E0,
             <<"use", "", 0, FALSE, <<"b", A(90), NoL>>, IF c3 = "none" THEN NoPaint ELSE <<<<<<"color", c3>>>>, <<>>, <<>>>>>>, E0>>,
           <<>>, cc)
  \/ \E own \in {"none", "attr", "inline", "rule"}, par \in {"none", "attr"}, cc \in {"black", "teal"}, which \in {"fill", "stroke"} :
        Mk("current",
           <<Root, <<"g", "", 0, FALSE, <<>>, <<IF par = "attr" THEN <<<<"color", "lime">>>> ELSE <<>>, <<>>, <<>>>>>>,
             <<"rect", "r", 0, FALSE, RectGeo,
               <<<<<<which, "currentColor">>>> \o (IF own = "attr" THEN <<<<"color", "red">>>> ELSE <<>>), <<>>,
                 IF own = "inline" THEN <<<<"color", "navy">>>> ELSE <<>>>>>>, E0, E0>>,
           IF own = "rule" THEN <<<<"id", "r", <<<<"color", "yellow">>>>>>>> ELSE <<>>, cc)
  \/ \E fo \in {"none", "attr", "inline", "parent", "attr0", "parent0"}, so \in {"none", "attr", "parent", "attr0"} :
        Mk("opacity",
           <<Root, <<"g", "", 0, FALSE, <<>>, <<(IF fo = "parent" THEN <<<<"fill-opacity", Q(1, 4)>>>> ELSE IF fo = "parent0" THEN <<<<"fill-opacity", RZero>>>> ELSE <<>>) \o
                                                (IF so = "parent" THEN <<<<"stroke-opacity", Q(1, 2)>>>> ELSE <<>>), <<>>, <<>>>>>>,
             <<"rect", "", 0, FALSE, RectGeo,
               <<<<<<"fill", "red">>, <<"stroke", "blue">>>> \o (IF fo = "attr" THEN <<<<"fill-opacity", Q(1, 2)>>>> ELSE IF fo = "attr0" THEN <<<<"fill-opacity", RZero>>>> ELSE <<>>) \o
                 (IF so = "attr" THEN <<<<"stroke-opacity", Q(3, 4)>>>> ELSE IF so = "attr0" THEN <<<<"stroke-opacity", RZero>>>> ELSE <<>>), <<>>,
                 IF fo = "inline" THEN <<<<"fill-opacity", Q(3, 4)>>>> ELSE <<>>>>>>, E0, E0>>,
           <<>>, "black")
  \/ \E ve \in {"none", "attr", "inline", "rule", "attr_none"}, gtf \in {0, 2, 7}, nested \in BOOLEAN, vb \in {1, 2}, shtf \in {0, 2} :
        \* non-scaling stroke: only the enclosing viewport transforms scale the width
        LET root == <<"svg", "", 0, FALSE, <<NoL, NoL, A(200), A(100), IF vb = 1 THEN <<I(0), I(0), I(100), I(50)>> ELSE <<I(0), I(0), I(50), I(25)>>, <<"xMidYMid", "">>>>, NoPaint>>
            inner == <<"svg", "", 0, FALSE, <<A(5), A(5), A(60), A(30), <<I(0), I(0), I(20), I(10)>>, <<"xMidYMid", "">>>>, NoPaint>>
            rect == <<"rect", "r", shtf, FALSE, RectGeo,
                      <<<<<<"stroke", "red">>, <<"stroke-width", I(3)>>>> \o
                          (IF ve = "attr" THEN <<<<"vector-effect", "non-scaling-stroke">>>> ELSE IF ve = "attr_none" THEN <<<<"vector-effect", "none">>>> ELSE <<>>),
                        <<>>, IF ve = "inline" THEN <<<<"vector-effect", "non-scaling-stroke">>>> ELSE <<>>>>>>
        IN Mk("vector",
              <<root, <<"g", "", gtf, FALSE, <<>>, NoPaint>>>> \o (IF nested THEN <<inner>> ELSE <<>>) \o <<rect>> \o (IF nested THEN <<E0>> ELSE <<>>) \o <<E0, E0>>,
              IF ve = "rule" THEN <<<<"id", "r", <<<<"vector-effect", "non-scaling-stroke">>>>>>>> ELSE <<>>, "black")
  \/ \E S \in (SUBSET (Sources \ {"*"})) \ {{}}, wv \in {"none", "inline"}, order \in {"asc", "desc"} :
        \* the strongest source present says wv, every other source says the opposite
        LET W == Winner(S, "display")
            val(src) == IF src = W THEN wv ELSE Other(wv)
            sel == SelectSeq(RuleSources, LAMBDA x : x \in S)
            rules == [i \in 1..Len(sel) |-> DispRule(sel[i], val(sel[i]))]
        IN MkD("display",
               <<Root, <<"rect", "r", 0, FALSE, RectGeo,
                         <<(IF "attr" \in S THEN <<<<"display", val("attr")>>>> ELSE <<>>), <<"k">>,
                           (IF "inline" \in S THEN <<<<"display", val("inline")>>>> ELSE <<>>)>>>>,
                 <<"circle", "b", 1, FALSE, <<A(5), A(6), A(7)>>, NoPaint>>, E0>>,
               IF order = "asc" THEN rules ELSE Rev(rules), "black")
  \/ \E gsrc \in {"attr", "inline", "rule"}, child \in {"none", "attr_inline", "style_inline"} :
        \* display:none on a container hides its subtree whatever the children say
        MkD("display",
            <<Root, <<"g", "h", 0, FALSE, <<>>,
                      <<(IF gsrc = "attr" THEN <<<<"display", "none">>>> ELSE <<>>), <<>>, (IF gsrc = "inline" THEN <<<<"display", "none">>>> ELSE <<>>)>>>>,
              <<"rect", "r", 0, FALSE, RectGeo,
                <<(IF child = "attr_inline" THEN <<<<"display", "inline">>>> ELSE <<>>), <<>>, (IF child = "style_inline" THEN <<<<"display", "inline">>>> ELSE <<>>)>>>>,
              E0, <<"circle", "b", 1, FALSE, <<A(5), A(6), A(7)>>, NoPaint>>, E0>>,
            IF gsrc = "rule" THEN <<<<"id", "h", <<<<"display", "none">>>>>>>> ELSE <<>>, "black")
  \/ \E sel \in {"class", "type", "id", "*"}, first \in {"stroke-width", "stroke"}, third \in BOOLEAN :
        \* several rules with the SAME selector accumulate (later declarations win property by property)
        LET arg == CASE sel = "class" -> "k" [] sel = "type" -> "rect" [] sel = "id" -> "r" [] sel = "*" -> ""
            r1 == <<sel, arg, <<<<"stroke-width", I(4)>>>>>>
            r2 == <<sel, arg, <<<<"stroke", "blue">>>>>>
            r3 == <<sel, arg, <<<<"stroke-width", I(6)>>>>>>
        IN Mk("tworules",
              <<Root, <<"rect", "r", 0, FALSE, RectGeo, <<<<<<"fill", "lime">>>>, <<"k">>, <<>>>>>>, E0>>,
              (IF first = "stroke-width" THEN <<r1, r2>> ELSE <<r2, r1>>) \o (IF third THEN <<r3>> ELSE <<>>), "black")
  \/ \E src \in {"attr", "inline", "rule", "parent"}, tf \in {0, 2} :
        \* a stroke width of exactly zero is a value like any other
        Mk("zerowidth",
           <<Root, <<"g", "", tf, FALSE, <<>>, <<(IF src = "parent" THEN <<<<"stroke-width", RZero>>>> ELSE <<>>), <<>>, <<>>>>>>,
             <<"rect", "r", 0, FALSE, RectGeo,
               <<<<<<"stroke", "red">>>> \o (IF src = "attr" THEN <<<<"stroke-width", RZero>>>> ELSE <<>>), <<>>,
                 (IF src = "inline" THEN <<<<"stroke-width", RZero>>>> ELSE <<>>)>>>>, E0, E0>>,
           IF src = "rule" THEN <<<<"id", "r", <<<<"stroke-width", RZero>>>>>>>> ELSE <<>>, "black")
Next == UNCHANGED vars
\* generated paint documents (harness/docgen.py): TLC evaluates the cascade; display is cascaded like any property
GenDocs == JsonDeserialize(IOEnv.DOCS_FILE)
InitGen == \E i \in 1..Len(GenDocs) : MkD("generated", GenDocs[i].doc, GenDocs[i].sheet, GenDocs[i].callerColor)

\* ---- laws of the specification ---------------------------------------------
OneShape == kind \notin {"display", "usecurrent"} => Len(out) = 1
UseCurrentLaw == kind = "usecurrent" => Len(out) = 3     \* one instance per use, each with the colour in force at its use
DisplayLaw == kind = "display" => (Len(out) \in {1, 2} /\ out[Len(out)][5] = "b")
=============================================================================
