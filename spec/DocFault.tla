------------------------------ MODULE DocFault ------------------------------
(***************************************************************************)
(* Faulty documents (C10).  A fault replaces one attribute value of one    *)
(* element by malformed text, or retargets a use reference.  What the      *)
(* faulty element itself (and its subtree) renders is left open; the       *)
(* requirement is about everything else:                                   *)
(*    parsing returns normally, and the shapes outside the faulty          *)
(*    elements' subtrees are exactly those of the document with the        *)
(*    faulty elements removed.                                             *)
(* RemoveAll(doc, F) is that reference document.                           *)
(***************************************************************************)
EXTENDS Integers, Sequences

ContainerTags == {"svg", "g", "defs"}

RECURSIVE EndOf(_, _, _)
\* index of the "end" token closing the container opened at i (depth d open containers so far)
EndOf(doc, j, d) ==
  IF j > Len(doc) THEN Len(doc)
  ELSE IF doc[j][1] = "end" THEN (IF d = 1 THEN j ELSE EndOf(doc, j + 1, d - 1))
  ELSE IF doc[j][1] \in ContainerTags THEN EndOf(doc, j + 1, d + 1)
  ELSE EndOf(doc, j + 1, d)
\* last index of the subtree of the element at i
SubtreeEnd(doc, i) == IF doc[i][1] \in ContainerTags THEN EndOf(doc, i + 1, 1) ELSE i

\* indices covered by the subtrees of the faulty elements F (a set of indices)
Covered(doc, F) == UNION {i..SubtreeEnd(doc, i) : i \in F}
RECURSIVE KeepFrom(_, _, _)
KeepFrom(doc, i, C) == IF i > Len(doc) THEN <<>>
                       ELSE (IF i \in C THEN <<>> ELSE <<doc[i]>>) \o KeepFrom(doc, i + 1, C)
RemoveAll(doc, F) == KeepFrom(doc, 1, Covered(doc, F))

\* fault kinds applicable to a token
FaultsOf(tok) ==
  (IF tok[1] # "end" THEN {"tf_unclosed", "tf_unknown", "tf_few_numbers", "tf_bad_unit", "colour_bad", "style_garbage"} ELSE {}) \cup
  (IF tok[1] \in {"rect", "circle", "ellipse", "line"} THEN {"length_garbage", "length_negative"} ELSE {}) \cup
  (IF tok[1] = "path" THEN {"d_truncated", "d_arc_short", "d_no_move", "d_garbage"} ELSE {}) \cup
  (IF tok[1] \in {"polyline", "polygon"} THEN {"points_odd", "points_garbage"} ELSE {}) \cup
  (IF tok[1] = "svg" THEN {"viewbox_garbage", "viewbox_short", "par_garbage", "length_garbage"} ELSE {}) \cup
  (IF tok[1] = "image" THEN {"image_bad_data", "length_garbage"} ELSE {}) \cup
  (IF tok[1] = "use" THEN {"href_missing", "href_self", "href_ancestor", "length_garbage"} ELSE {})
=============================================================================
