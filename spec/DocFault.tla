------------------------------ MODULE DocFault ------------------------------
(***************************************************************************)
(* Faulty documents (C10).  A fault replaces one attribute value of one    *)
(* element by malformed text, or retargets a use reference.  What the      *)
(* faulty element itself (and its subtree) renders is left open; the       *)
(* requirement is about everything else:                                   *)
(*    parsing returns normally, and the shapes outside the faulty          *)
(*    elements' subtrees are exactly those of the document with the        *)
(*    faulty elements removed.                                             *)
(* RemoveAll(doc, F) is that reference document.                           *)
(***************************************************************************)
EXTENDS Integers, Sequences

ContainerTags == {"svg", "g", "defs"}

RECURSIVE EndOf(_, _, _)
\* index of the "end" token closing the container opened at i (depth d open containers so far)
EndOf(doc, j, d) ==
  IF j > Len(doc) THEN Len(doc)
  ELSE IF doc[j][1] = "end" THEN (IF d = 1 THEN j ELSE EndOf(doc, j + 1, d - 1))
  ELSE IF doc[j][1] \in ContainerTags THEN EndOf(doc, j + 1, d + 1)
  ELSE EndOf(doc, j + 1, d)
\* last index of the subtree of the element at i
SubtreeEnd(doc, i) == IF doc[i][1] \in ContainerTags THEN EndOf(doc, i + 1, 1) ELSE i

\* indices covered by the subtrees of the faulty elements F (a set of indices)
Covered(doc, F) == UNION {i..SubtreeEnd(doc, i) : i \in F}
RECURSIVE KeepFrom(_, _, _)
KeepFrom(doc, i, C) == IF i > Len(doc) THEN <<>>
                       ELSE (IF i \in C THEN <<>> ELSE <<doc[i]>>) \o KeepFrom(doc, i + 1, C)
RemoveAll(doc, F) == KeepFrom(doc, 1, Covered(doc, F))

\* ---- reference cycles ---------------------------------------------------------
\* A use element is cyclic when expanding it (its target's subtree, and transitively the targets of the uses in
\* there) comes back to the use itself or to one of its ancestors: self reference, reference to an ancestor, mutual
\* cycles through two or more ids.  Cyclic uses are faulty elements like any other.
IndexOf(doc, id) == LET s == {i \in 1..Len(doc) : doc[i][1] # "end" /\ doc[i][2] = id} IN
                    IF id = "" \/ s = {} THEN 0 ELSE CHOOSE i \in s : \A j \in s : i <= j
UsesIn(doc, S) == {i \in S : doc[i][1] = "use"}
TargetTree(doc, i) == LET k == IndexOf(doc, doc[i][5][1]) IN IF k = 0 THEN {} ELSE k..SubtreeEnd(doc, k)
RECURSIVE ReachFrom(_, _, _)
ReachFrom(doc, S, n) ==              \* indices reached from the set S of element indices within n expansion rounds
  IF n = 0 THEN S
  ELSE LET more == S \cup UNION {TargetTree(doc, u) : u \in UsesIn(doc, S)} IN
       IF more = S THEN S ELSE ReachFrom(doc, more, n - 1)
RECURSIVE AncestorsOf(_, _, _, _)
AncestorsOf(doc, j, i, st) == IF j = i THEN {st[k] : k \in 1..Len(st)}
                              ELSE IF doc[j][1] = "end" THEN AncestorsOf(doc, j + 1, i, SubSeq(st, 1, Len(st) - 1))
                              ELSE IF doc[j][1] \in ContainerTags THEN AncestorsOf(doc, j + 1, i, Append(st, j))
                              ELSE AncestorsOf(doc, j + 1, i, st)
CyclicUses(doc) ==
  {i \in 1..Len(doc) : doc[i][1] = "use" /\
      LET r == ReachFrom(doc, TargetTree(doc, i), Len(doc)) IN i \in r \/ (AncestorsOf(doc, 1, i, <<>>) \ {1}) \cap r # {}}

\* fault kinds applicable to a token
FaultsOf(tok) ==
  (IF tok[1] # "end" THEN {"tf_unclosed", "tf_unknown", "tf_few_numbers", "tf_bad_unit", "colour_bad", "style_garbage", "opacity_bad"} ELSE {}) \cup
  (IF tok[1] \in {"rect", "circle", "ellipse", "line"} THEN {"length_garbage", "length_negative"} ELSE {}) \cup
  (IF tok[1] = "path" THEN {"d_truncated", "d_arc_short", "d_no_move", "d_garbage"} ELSE {}) \cup
  (IF tok[1] \in {"polyline", "polygon"} THEN {"points_odd", "points_garbage"} ELSE {}) \cup
  (IF tok[1] = "svg" THEN {"viewbox_garbage", "viewbox_short", "viewbox_zero", "par_garbage", "length_garbage"} ELSE {}) \cup
  (IF tok[1] = "image" THEN {"image_bad_data", "length_garbage"} ELSE {}) \cup
  (IF tok[1] = "use" THEN {"href_missing", "href_self", "href_ancestor", "length_garbage"} ELSE {})
=============================================================================
