----------------------------- MODULE Trace_C01 -----------------------------
(***************************************************************************)
(* Trace validation for the path-data interpreter (binding B).  The        *)
(* harness parses seeded random conforming path data (long command         *)
(* sequences, decimal coordinates as fixed-point integers of 1/1000) with  *)
(* the REAL parser through a recording builder and logs, per command, the  *)
(* command with its source arguments and the segments the real Path        *)
(* appended.  This module replays PathInterp!Exec over each trace and      *)
(* compares after every command; `fail` names the first failing clause.    *)
(* All traces of a file are validated in one TLC run (one initial state    *)
(* per trace id); a rejected trace is printed by the Report invariant.     *)
(***************************************************************************)
EXTENDS PathSem, Json, IOUtils, TLC

Traces == JsonDeserialize(IOEnv.TRACE_FILE)

VARIABLES tid, l, st, fail
tvars == <<tid, l, st, fail>>

TInit == /\ tid \in 1..Len(Traces) /\ l = 1 /\ fail = ""
         /\ st = <<NONE, NONE, NONE, 0, <<>>>>

\* the segments appended by the last command: everything after the old length
NewSegs(old, new) == SubSeq(new[5], Len(old[5]) + 1, Len(new[5]))

\* logged segment -> spec vocabulary (JSON null-free: absent points are <<>>)
Consume ==
  /\ l <= Len(Traces[tid])
  /\ LET ev == Traces[tid][l]
         c  == <<ev.cmd, ev.args, FALSE, ev.cz>>
         enabled == /\ ev.cmd \in Letters
                    /\ (st[1] = NONE => Upper(ev.cmd) = "M")
                    /\ (ev.cz => Completable(ev.cmd))
                    /\ Len(ev.args) = (IF ev.cz THEN Arity(ev.cmd) - 2 ELSE Arity(ev.cmd))
     IN IF ~enabled
        THEN /\ fail' = (IF fail # "" THEN fail ELSE "NotEnabled@" \o ToString(l)) /\ UNCHANGED st
        ELSE LET nxt == Exec(st, c)
                 want == NewSegs(st, nxt)
             IN /\ st' = nxt
                /\ fail' = IF fail # "" THEN fail
                           ELSE IF Len(ev.segs) # Len(want) THEN "Count@" \o ToString(l)
                           ELSE IF \E k \in 1..Len(want) : ev.segs[k][1] # want[k][1] THEN "Kind@" \o ToString(l)
                           ELSE IF \E k \in 1..Len(want) : want[k][1] # "M" /\ ev.segs[k][2] # want[k][2] THEN "Start@" \o ToString(l)
                           ELSE IF \E k \in 1..Len(want) : ev.segs[k][5] # want[k][5] THEN "End@" \o ToString(l)
                           ELSE IF \E k \in 1..Len(want) : want[k][1] \in {"Q", "C"} /\ ev.segs[k][3] # want[k][3] THEN "Control1@" \o ToString(l)
                           ELSE IF \E k \in 1..Len(want) : want[k][1] = "C" /\ ev.segs[k][4] # want[k][4] THEN "Control2@" \o ToString(l)
                           ELSE ""
  /\ l' = l + 1 /\ UNCHANGED tid
TNext == Consume
\* one line per rejected trace, printed when the end of the trace is reached
Report == (l = Len(Traces[tid]) + 1 /\ fail # "") => PrintT(<<"REJECT", tid, fail>>)
\* the property as invariants of the replayed specification state
TConnected == \A i \in 2..Len(st[5]) : st[5][i][1] # "M" => st[5][i][2] = st[5][i - 1][5]
=============================================================================
