----------------------------- MODULE Trace_C16 -----------------------------
(***************************************************************************)
(* Trace validation of path EDIT HISTORIES (binding B for C16, with C02's   *)
(* maps and the builder calls interleaved).  The harness drives a real      *)
(* Path through a seeded random history of 8..40 public operations          *)
(*   draw(kind,k) | rev | revsub(i) | mul(k)                                *)
(* and logs after every operation the geometry of abs(path) projected onto  *)
(* the PathOps abstraction (integers).  This module recomputes the expected *)
(* geometry with PathOps/PathEdit from the PREVIOUS logged state, compares  *)
(* (closed sub-paths as cycles) and adopts the logged state, so that one    *)
(* disagreement does not hide the rest of the trace.  `fail` names the      *)
(* first failing clause; Report prints one line per rejected trace.         *)
(***************************************************************************)
EXTENDS PathEdit, Json, IOUtils, TLC

Traces == JsonDeserialize(IOEnv.TRACE_FILE)

VARIABLES tid, l, geo, fail
tvars == <<tid, l, geo, fail>>

TInit == tid \in 1..Len(Traces) /\ l = 1 /\ geo = <<>> /\ fail = ""

Expected(ev) ==
  CASE ev.op = "draw"   -> Draw(geo, ev.kind, ev.k)
    [] ev.op = "rev"    -> Mirror(geo)
    [] ev.op = "revsub" -> [geo EXCEPT ![ev.i] = MirrorSub(geo[ev.i])]
    [] ev.op = "mul"    -> MapGeo(ev.k, geo)

Enabled(ev) ==
  CASE ev.op = "draw"   -> ev.kind \in {"M", "L", "Q", "C", "A", "Z", "R"} /\ DrawOK(geo, ev.kind)
    [] ev.op = "rev"    -> TRUE
    [] ev.op = "revsub" -> ev.i \in 1..Len(geo)
    [] ev.op = "mul"    -> ev.k \in 1..3
    [] OTHER -> FALSE

Clause(got, want) ==
  IF Len(got) # Len(want) THEN "SubpathCount"
  ELSE IF \E i \in 1..Len(want) : got[i][1] # want[i][1] THEN "ClosedFlag"
  ELSE IF \E i \in 1..Len(want) : Len(got[i][3]) # Len(want[i][3]) THEN "EdgeCount"
  ELSE IF \E i \in 1..Len(want) : want[i][3] = <<>> /\ got[i][2] # want[i][2] THEN "PointLost"
  ELSE IF \E i \in 1..Len(want) : ~want[i][1] /\ got[i][2] # want[i][2] THEN "StartPoint"
  ELSE "Edge"

Consume ==
  /\ l <= Len(Traces[tid])
  /\ LET ev == Traces[tid][l] IN
     IF ~Enabled(ev)
     THEN /\ fail' = (IF fail # "" THEN fail ELSE "NotEnabled@" \o ToString(l))
          /\ geo' = ev.geo
     ELSE LET want == Expected(ev) IN
          /\ geo' = ev.geo
          /\ fail' = IF fail # "" THEN fail
                     ELSE IF ~GeoConnected(ev.geo) THEN "Connected@" \o ToString(l)
                     ELSE IF GeoEquiv(ev.geo, want) THEN ""
                     ELSE Clause(ev.geo, want) \o "@" \o ToString(l)
  /\ l' = l + 1 /\ UNCHANGED tid
TNext == Consume

Report == (l = Len(Traces[tid]) + 1 /\ fail # "") => PrintT(<<"REJECT", tid, fail>>)
\* on accepted traces the adopted state is a connected geometry at every step
TConnected == fail = "" => GeoConnected(geo)
=============================================================================
