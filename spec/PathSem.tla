----------------------------- MODULE PathSem -----------------------------
(***************************************************************************)
(* The SVG path-data interpreter (SVG 1.1 section 8.3, SVG 2 section 9.3)  *)
(* as a state machine over exact integer coordinates.                      *)
(*                                                                         *)
(* State  : cur  - current point (NONE before the first move)              *)
(*          zp   - start point of the current sub-path                     *)
(*          ctl  - last control point of the preceding curve, deg its      *)
(*                 degree (2 quadratic, 3 cubic, 0 = no curve precedes)    *)
(*          segs - the segments drawn so far                               *)
(*          hist - the commands issued so far (history; one behaviour      *)
(*                 prefix per distinct state)                              *)
(*                                                                         *)
(* A command is <<letter, args, impl, cz>>: letter in "MmLlHhVvCcSsQqTtAaZz"*)
(* args the flat tuple of numbers, impl = written without its letter       *)
(* (implicit repetition), cz = the final coordinate pair is replaced by a  *)
(* segment-completing close path (SVG 2).                                  *)
(*                                                                         *)
(* A segment is <<kind, start, c1, c2, end>>, kind in M L Q C A Z; for an  *)
(* arc c1 = <<rx, ry, rotation>> and c2 = <<large, sweep>>.                *)
(*                                                                         *)
(* Used by: C01 (interpretation), C09 (total token machine, PathTok),      *)
(* C17 (continuation), C07 (Interp o Write = id).                          *)
(***************************************************************************)
EXTENDS Integers, Sequences

NONE == <<>>

Pt(a, i)   == <<a[i], a[i + 1]>>
Add(p, q)  == <<p[1] + q[1], p[2] + q[2]>>
Refl(c, p) == <<2 * p[1] - c[1], 2 * p[2] - c[2]>>      \* reflect c about p

RelLetters  == {"m", "l", "h", "v", "c", "s", "q", "t", "a", "z"}
AbsLetters  == {"M", "L", "H", "V", "C", "S", "Q", "T", "A", "Z"}
Letters     == RelLetters \cup AbsLetters
IsRel(l)    == l \in RelLetters
Upper(l) == CASE l = "m" -> "M" [] l = "l" -> "L" [] l = "h" -> "H" [] l = "v" -> "V"
              [] l = "c" -> "C" [] l = "s" -> "S" [] l = "q" -> "Q" [] l = "t" -> "T"
              [] l = "a" -> "A" [] l = "z" -> "Z" [] OTHER -> l
\* number of numeric arguments of one argument group
Arity(l) == CASE Upper(l) = "M" -> 2 [] Upper(l) = "L" -> 2 [] Upper(l) = "T" -> 2
              [] Upper(l) = "H" -> 1 [] Upper(l) = "V" -> 1
              [] Upper(l) = "C" -> 6 [] Upper(l) = "S" -> 4 [] Upper(l) = "Q" -> 4
              [] Upper(l) = "A" -> 7 [] OTHER -> 0
\* commands whose final coordinate pair may be a segment-completing close
Completable(l) == Upper(l) \in {"L", "C", "S", "Q", "T", "A"}

(***************************************************************************)
(* Exec: one command applied to an interpreter state                       *)
(* s = <<cur, zp, ctl, deg, segs>>                                         *)
(***************************************************************************)
Exec(s, c) ==
  LET cur == s[1]  zp == s[2]  ctl == s[3]  deg == s[4]  segs == s[5]
      l == c[1]  a == c[2]  cz == c[4]
      U == Upper(l)
      Abs(p) == IF IsRel(l) /\ cur # NONE THEN Add(cur, p) ELSE p
      \* end point: the last pair of the group, or the sub-path start when completing
      EndAt(i) == IF cz THEN zp ELSE Abs(Pt(a, i))
      Fin(st) ==  \* a completing close appends the close itself
        IF cz THEN <<zp, zp, NONE, 0,
                     Append(st[5], <<"Z", st[1], NONE, NONE, zp>>)>>
              ELSE st
  IN
  CASE U = "M" ->
         LET e == Abs(Pt(a, 1)) IN
         <<e, e, NONE, 0, Append(segs, <<"M", NONE, NONE, NONE, e>>)>>
    [] U = "Z" ->
         <<zp, zp, NONE, 0, Append(segs, <<"Z", cur, NONE, NONE, zp>>)>>
    [] U = "L" ->
         LET e == EndAt(1) IN
         Fin(<<e, zp, NONE, 0, Append(segs, <<"L", cur, NONE, NONE, e>>)>>)
    [] U = "H" ->
         LET e == IF IsRel(l) THEN <<cur[1] + a[1], cur[2]>> ELSE <<a[1], cur[2]>> IN
         <<e, zp, NONE, 0, Append(segs, <<"L", cur, NONE, NONE, e>>)>>
    [] U = "V" ->
         LET e == IF IsRel(l) THEN <<cur[1], cur[2] + a[1]>> ELSE <<cur[1], a[1]>> IN
         <<e, zp, NONE, 0, Append(segs, <<"L", cur, NONE, NONE, e>>)>>
    [] U = "C" ->
         LET c1 == Abs(Pt(a, 1))  c2 == Abs(Pt(a, 3))  e == EndAt(5) IN
         Fin(<<e, zp, c2, 3, Append(segs, <<"C", cur, c1, c2, e>>)>>)
    [] U = "S" ->   \* reflects only the control of a preceding CUBIC (SVG 8.3.6)
         LET c1 == IF deg = 3 THEN Refl(ctl, cur) ELSE cur
             c2 == Abs(Pt(a, 1))  e == EndAt(3) IN
         Fin(<<e, zp, c2, 3, Append(segs, <<"C", cur, c1, c2, e>>)>>)
    [] U = "Q" ->
         LET c1 == Abs(Pt(a, 1))  e == EndAt(3) IN
         Fin(<<e, zp, c1, 2, Append(segs, <<"Q", cur, c1, NONE, e>>)>>)
    [] U = "T" ->   \* reflects only the control of a preceding QUADRATIC (SVG 8.3.7)
         LET c1 == IF deg = 2 THEN Refl(ctl, cur) ELSE cur
             e == EndAt(1) IN
         Fin(<<e, zp, c1, 2, Append(segs, <<"Q", cur, c1, NONE, e>>)>>)
    [] U = "A" ->
         LET e == EndAt(6) IN
         Fin(<<e, zp, NONE, 0,
               Append(segs, <<"A", cur, <<a[1], a[2], a[3]>>, <<a[4], a[5]>>, e>>)>>)

\* The letter in force after a command (what an implicit repetition repeats).
\* After M/m further pairs are L/l (SVG 8.3.2); after z or a completing close nothing repeats.
InForce(c) == IF c[4] THEN "z"
              ELSE CASE c[1] = "M" -> "L" [] c[1] = "m" -> "l" [] OTHER -> c[1]

\* Grammar conformance of issuing c after history h in a state with current point cur
Conforms(cur, h, c) ==
  /\ c[1] \in Letters
  /\ (cur = NONE) => Upper(c[1]) = "M"             \* path data begins with a moveto
  /\ c[4] => Completable(c[1]) /\ ~c[3]   \* SVG 2: (coordinate_pair_sequence? closepath) follows the letter itself
  /\ Len(c[2]) = (IF c[4] THEN Arity(c[1]) - 2 ELSE Arity(c[1]))
  /\ c[3] => /\ h # <<>>
             /\ Upper(c[1]) # "Z"
             /\ InForce(h[Len(h)]) = c[1]
=============================================================================
