-------------------------------- MODULE Seg --------------------------------
(***************************************************************************)
(* Path segments over exact rationals and their images under affine maps   *)
(* (C02).  A segment is                                                    *)
(*   <<"L", p0, p1>>  <<"Q", p0, p1, p2>>  <<"C", p0, p1, p2, p3>>         *)
(*   <<"A", c, u, v, th0, ext, dir>> : the arc  c + u cos(th) + v sin(th), *)
(*        th running from th0 over the extent ext in direction dir, where   *)
(*        u, v are conjugate semi-diameters (orthogonal before any map),   *)
(*        th0 and ext angles given by exact <<cos, sin>>.                   *)
(* The image of a segment under an affine map M maps every defining point; *)
(* for an arc the centre is mapped and u, v are mapped as VECTORS - the    *)
(* parameterisation th is unchanged.  That is the definition of "every     *)
(* point of X*M is the image of the corresponding point of X".             *)
(***************************************************************************)
EXTENDS Affine

Lerp(p, q, t) == <<RAdd(p[1], RMul(t, RSub(q[1], p[1]))), RAdd(p[2], RMul(t, RSub(q[2], p[2])))>>

\* de Casteljau: exact point of a Bezier segment at a rational parameter
PointAt(s, t) ==
  CASE s[1] = "L" -> Lerp(s[2], s[3], t)
    [] s[1] = "Q" -> Lerp(Lerp(s[2], s[3], t), Lerp(s[3], s[4], t), t)
    [] s[1] = "C" -> LET a == Lerp(s[2], s[3], t)  b == Lerp(s[3], s[4], t)  c == Lerp(s[4], s[5], t)
                     IN Lerp(Lerp(a, b, t), Lerp(b, c, t), t)

ApplyVec(M, w) == <<RAdd(RMul(M[1], w[1]), RMul(M[3], w[2])), RAdd(RMul(M[2], w[1]), RMul(M[4], w[2]))>>

Image(M, s) ==
  CASE s[1] = "L" -> <<"L", Apply(M, s[2]), Apply(M, s[3])>>
    [] s[1] = "Q" -> <<"Q", Apply(M, s[2]), Apply(M, s[3]), Apply(M, s[4])>>
    [] s[1] = "C" -> <<"C", Apply(M, s[2]), Apply(M, s[3]), Apply(M, s[4]), Apply(M, s[5])>>
    [] s[1] = "A" -> <<"A", Apply(M, s[2]), ApplyVec(M, s[3]), ApplyVec(M, s[4]), s[5], s[6], s[7]>>

\* end points of a segment (for arcs: c + u cos + v sin at the end angles)
ArcPoint(s, th) == <<RAdd(s[2][1], RAdd(RMul(s[3][1], th[1]), RMul(s[4][1], th[2]))),
                     RAdd(s[2][2], RAdd(RMul(s[3][2], th[1]), RMul(s[4][2], th[2])))>>
AngAdd(a, b) == <<RSub(RMul(a[1], b[1]), RMul(a[2], b[2])), RAdd(RMul(a[2], b[1]), RMul(a[1], b[2]))>>
AngSub(a, b) == <<RAdd(RMul(a[1], b[1]), RMul(a[2], b[2])), RSub(RMul(a[2], b[1]), RMul(a[1], b[2]))>>
StartOf(s) == IF s[1] = "A" THEN ArcPoint(s, s[5]) ELSE s[2]
EndOf(s)   == CASE s[1] = "A" -> ArcPoint(s, IF s[7] = 1 THEN AngAdd(s[5], s[6]) ELSE AngSub(s[5], s[6]))
                [] s[1] = "L" -> s[3] [] s[1] = "Q" -> s[4] [] s[1] = "C" -> s[5]

\* an SVG arc (centre c, radii rx, ry, rotation phi as <<cos, sin>>, start angle, extent, direction) as a segment
MkArc(c, rx, ry, phi, th0, ext, dir) ==
  <<"A", c, <<RMul(rx, phi[1]), RMul(rx, phi[2])>>, <<RNeg(RMul(ry, phi[2])), RMul(ry, phi[1])>>, th0, ext, dir>>
=============================================================================
