----------------------------- MODULE ArcApprox -----------------------------
(***************************************************************************)
(* Arc -> Bezier conversion (C19): the STRUCTURAL contract on a path whose *)
(* points are abstract identities.  Replacing the arc at position i by a   *)
(* chain of n curves (n = 0 iff the arc has zero extent) introduces n - 1  *)
(* fresh joints on the arc, keeps the arc's own end points as the chain's  *)
(* first start and last end, leaves every other segment untouched and the  *)
(* path connected.  (The metric contract - every point of the chain stays  *)
(* within 1e-3 / 1e-2 of the ellipse, relative to the larger radius, and   *)
(* closer for finer subdivision - is evaluated on the real curves by the   *)
(* distance-to-ellipse comparator.)                                        *)
(*                                                                         *)
(* abstract segment: <<kind, start id, end id>>, kind in M L A B (B = a    *)
(* Bezier produced by the conversion); fresh joints get ids >= 100.        *)
(***************************************************************************)
EXTENDS Integers, Sequences

Chain(s, e, n, base) ==
  [k \in 1..n |-> <<"B", IF k = 1 THEN s ELSE base + k - 1, IF k = n THEN e ELSE base + k>>]

Replace(p, i, n) ==
  SubSeq(p, 1, i - 1) \o Chain(p[i][2], p[i][3], n, 100 * i) \o SubSeq(p, i + 1, Len(p))

Connected(p) == \A j \in 2..Len(p) : p[j][1] # "M" => p[j][2] = p[j - 1][3]

\* convert every arc of the path, last to first (as Path.approximate_arcs_with_* does); ext0(i) = arc i has zero extent
RECURSIVE ConvertFrom(_, _, _, _)
ConvertFrom(p, i, n, zero) ==
  IF i = 0 THEN p
  ELSE IF p[i][1] = "A" THEN ConvertFrom(Replace(p, i, IF i \in zero THEN 0 ELSE n), i - 1, n, zero)
  ELSE ConvertFrom(p, i - 1, n, zero)
Convert(p, n, zero) == ConvertFrom(p, Len(p), n, zero)
NoArcs(p) == \A j \in 1..Len(p) : p[j][1] # "A"
=============================================================================
