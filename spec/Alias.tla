------------------------------- MODULE Alias -------------------------------
(***************************************************************************)
(* C18: copies and derived objects share no mutable state with their       *)
(* source.  Two sides: x (the source) and y = Derive(op, x).  The          *)
(* requirement is a frame condition over histories of public mutations:    *)
(* a mutation of one side never changes the observable value of the other, *)
(* and Derive itself never changes x.                                      *)
(*                                                                         *)
(* The model keeps, per side, a version counter per COMPONENT of the       *)
(* object (geometry, transform, paint, values, children/list); a mutation  *)
(* bumps the counters of the components it writes on its own side only.    *)
(* The harness observes the real objects through a deep structural         *)
(* snapshot and checks, step by step, that the untouched side's snapshot   *)
(* is unchanged (vx/vy not bumped <=> snapshot unchanged), plus the        *)
(* heap-level invariant NoSharedMutable on the real object graph.          *)
(***************************************************************************)
EXTENDS Integers, Sequences

Kinds == {"Point", "Matrix", "Color", "Length", "Move", "Line", "Close", "QuadraticBezier",
          "CubicBezier", "Arc", "Path", "PathT", "Subpath", "Rect", "RRect", "Circle", "Ellipse",
          "SimpleLine", "Polyline", "Polygon", "Group", "GroupNested", "GroupMixed", "Text", "Image",
          "RectLen", "CircleLen",       \* shapes whose position is still an unrendered Length (e.g. x="10%")
          "TextLen", "ImageLen", "MatrixLen"}   \* text, image and matrix whose position / translation is a Length (x="1in", translate(1in,2in))
Segments == {"Move", "Line", "Close", "QuadraticBezier", "CubicBezier", "Arc"}
Shapes   == {"Path", "PathT", "Rect", "RRect", "Circle", "Ellipse", "SimpleLine", "Polyline", "Polygon"}
LenShapes == {"RectLen", "CircleLen"}      \* cannot be decomposed before they are rendered: only copy and * apply
LenOthers == {"TextLen", "ImageLen", "MatrixLen"}
Groups   == {"Group", "GroupNested", "GroupMixed"}     \* GroupMixed: Text, Image, Path and a nested group as children

\* derivation operations available per kind
OpsOf(k) ==
  {"copy"} \cup
  (IF k \in Segments \cup Shapes \cup LenShapes \cup Groups \cup {"Point", "Matrix", "Text", "Image", "Subpath", "TextLen", "ImageLen"} THEN {"mul"} ELSE {}) \cup
  (IF k \in Shapes \cup {"Text", "Image"} THEN {"abs"} ELSE {}) \cup
  (IF k \in Shapes \cup {"Subpath"} THEN {"topath"} ELSE {}) \cup
  (IF k = "Matrix" THEN {"inv", "matmul"} ELSE {}) \cup
  (IF k \in {"Path", "PathT", "Point", "Length"} \cup Segments THEN {"add"} ELSE {}) \cup
  (IF k \in {"Path", "PathT"} THEN {"radd"} ELSE {}) \cup
  (IF k \in Segments THEN {"pathadd", "addpath", "subadd", "addsub"} ELSE {}) \cup      \* ... and Subpath + x, x + Subpath
  (IF k \in {"Path", "PathT"} THEN {"pathadd", "pathiadd", "pathaddview"} ELSE {}) \cup      \* pathaddview: Path + x.subpath(0)                  \* x a path as the RIGHT operand of Path + x, Path += x                                   \* Path + x, x + Path (x a segment)                                      \* "path data" + x
  (IF k \in Segments \cup Shapes \cup Groups \cup {"Point", "Text", "Image", "Subpath"} THEN {"mulid"} ELSE {})   \* x * identity

\* kind of the derived object
ResultKind(k, op) ==
  IF op = "topath" THEN "Path"
  ELSE IF op \in {"add", "addsub"} /\ k \in Segments THEN "Path"
  ELSE IF op = "subadd" THEN "Subpath"
  ELSE IF op \in {"pathadd", "pathiadd", "pathaddview"} THEN "Path"
  ELSE IF op \in {"mul", "copy", "abs"} /\ k = "Subpath" THEN "Subpath"
  ELSE k

\* public mutations per kind, each with the component it writes
MutsOf(k) ==
  CASE k = "Point"  -> {"setx", "imul"}
    [] k = "Matrix" -> {"seta", "post_translate", "reset", "imatmul"}
    [] k = "Color"  -> {"setred", "setopacity"}
    [] k = "Length" -> {"iadd", "setamount", "imul_num"}
    [] k \in Segments -> {"setend", "imul", "setstart"}
    [] k \in {"Path", "PathT"} -> {"setpt", "imul", "reify", "paint", "setfill", "sw", "tredit", "values", "append",
                          "delete", "setitem", "setid", "reverse", "iadd_str"}
    [] k = "Subpath" -> {"setpt", "imul", "reverse"}
    [] k \in {"Rect", "RRect", "Circle", "Ellipse", "SimpleLine"} ->
                       {"setgeom", "imul", "reify", "paint", "setfill", "sw", "tredit", "values", "setid"}
    [] k \in LenShapes -> {"setgeom", "scalegeom", "imul", "reify", "paint", "setfill", "sw", "tredit", "values", "setid"}   \* scalegeom: x *= 2, the in-place operator of the Length
    [] k = "TextLen" -> {"scalegeom", "imul", "values", "tredit"}
    [] k = "ImageLen" -> {"scalegeom", "imul", "values", "tredit", "vbedit"}
    [] k = "MatrixLen" -> {"scalegeom", "post_translate", "seta"}
    [] k \in {"Polyline", "Polygon"} ->
                       {"setpt", "ptappend", "imul", "reify", "paint", "sw", "tredit", "values"}
    [] k \in Groups -> {"imul", "reify", "values", "append", "delete", "childedit", "childtredit", "setid"}
    [] k = "Text"   -> {"imul", "reify", "paint", "settext", "values", "tredit"}
    [] k = "Image"  -> {"imul", "values", "seturl", "tredit", "vbedit"}      \* vbedit: a field of the image's viewbox object

VARIABLES kind, op, hist, vx, vy
vars == <<kind, op, hist, vx, vy>>

Init == /\ kind \in Kinds /\ op \in OpsOf(kind)
        /\ hist = <<>> /\ vx = 0 /\ vy = 0            \* the state just after y = Derive(op, x)

Mut(side, m) ==
  /\ m \in MutsOf(IF side = "x" THEN kind ELSE ResultKind(kind, op))
  /\ hist' = Append(hist, <<side, m>>)
  /\ IF side = "x" THEN vx' = vx + 1 /\ vy' = vy ELSE vy' = vy + 1 /\ vx' = vx
  /\ UNCHANGED <<kind, op>>

\* the requirement: the version of a side changes only by its own mutations
Independent == [][\A m \in MutsOf(kind) \cup MutsOf(ResultKind(kind, op)) :
                    /\ Mut("x", m) => vy' = vy
                    /\ Mut("y", m) => vx' = vx]_vars
Counts == vx + vy = Len(hist)
=============================================================================
