----------------------------- MODULE PathEdit -----------------------------
(***************************************************************************)
(* Editing a path AFTER it has been built, on the PathOps geometry         *)
(* abstraction: continuing to draw with the builder calls (move, line,     *)
(* quad, cubic, arc, closed) on a path that has been reversed, partially   *)
(* reversed or mapped.  The SVG rule is the same as for parsing: a drawing  *)
(* call continues from the current point, which is the end of the last     *)
(* edge of the last sub-path, or that sub-path's first point when it has    *)
(* no edges or has just been closed.                                        *)
(*                                                                         *)
(* Fresh segments are placed relative to the current point with small      *)
(* offsets taken from a fixed table indexed by a counter k (the recorded    *)
(* event carries k), so that coincidences (returning to the start point,    *)
(* retracing an edge) do occur.                                             *)
(***************************************************************************)
EXTENDS PathOps

CurOf(geo) ==
  IF geo = <<>> THEN NONE
  ELSE LET sp == geo[Len(geo)] IN
       IF sp[1] \/ sp[3] = <<>> THEN sp[2] ELSE sp[3][Len(sp[3])][5]

\* offset table: never <<0,0>>; repeats with period 35 and contains opposite pairs (retracing)
D(k) == LET a == (k % 5) - 2   b == ((k \div 5) % 7) - 3 IN IF a = 0 /\ b = 0 THEN <<3, -4>> ELSE <<a, b>>
Off(q, d) == <<q[1] + d[1], q[2] + d[2]>>

\* the segment drawn by builder call `kind` with counter k from the current point c
Fresh(kind, k, c) ==
  CASE kind = "L" -> <<"L", c, NONE, NONE, Off(c, D(k))>>
    [] kind = "Q" -> <<"Q", c, Off(c, D(k + 1)), NONE, Off(c, D(k))>>
    [] kind = "C" -> <<"C", c, Off(c, D(k + 1)), Off(c, D(k + 2)), Off(c, D(k))>>
    [] kind = "A" -> <<"A", c, <<20 + (k % 7), 30 + (k % 7), 15 * (k % 5)>>, <<k % 2, (k \div 2) % 2>>, Off(c, D(k))>>

\* drawing calls.  "M" starts a sub-path at an offset from the current point (or at D(k) on an empty path)
DrawOK(geo, kind) ==
  CASE kind = "M" -> TRUE
    [] OTHER -> geo # <<>> /\ ~geo[Len(geo)][1]       \* (drawing straight after a close is PathOps' Ranges rule; kept out here)

Draw(geo, kind, k) ==
  LET c == CurOf(geo)  n == Len(geo) IN
  CASE kind = "M" -> Append(geo, <<FALSE, IF c = NONE THEN D(k) ELSE Off(c, D(k)), <<>>>>)
    [] kind = "Z" -> [geo EXCEPT ![n] = <<TRUE, @[2],
                         IF c # @[2] THEN Append(@[3], <<"L", c, NONE, NONE, @[2]>>) ELSE @[3]>>]
    [] kind = "R" -> [geo EXCEPT ![n] = <<FALSE, @[2], Append(@[3], <<"L", c, NONE, NONE, @[2]>>)>>]
    [] OTHER      -> [geo EXCEPT ![n] = <<FALSE, @[2], Append(@[3], Fresh(kind, k, c))>>]

\* ---- equivalence of geometries: a closed sub-path is a cycle ------------------
CanonEdge(g) == IF g[1] = "A" THEN <<"A", g[2], <<g[3][1], g[3][2], g[3][3] % 180>>, g[4], g[5]>> ELSE g
Canon(es) == [i \in 1..Len(es) |-> CanonEdge(es[i])]
Rot(s, r) == [i \in 1..Len(s) |-> s[((i - 1 + r) % Len(s)) + 1]]
SubEquiv(a, b) ==
  /\ a[1] = b[1]
  /\ Len(a[3]) = Len(b[3])
  /\ IF a[3] = <<>> THEN a[2] = b[2]
     ELSE IF a[1] THEN \E r \in 0..(Len(a[3]) - 1) : Rot(Canon(a[3]), r) = Canon(b[3])
     ELSE a[2] = b[2] /\ Canon(a[3]) = Canon(b[3])
GeoEquiv(g, h) == Len(g) = Len(h) /\ \A i \in 1..Len(g) : SubEquiv(g[i], h[i])
=============================================================================
