------------------------------ MODULE Viewport ------------------------------
(***************************************************************************)
(* SVG 2 section 8.2 "equivalent transform" of a viewport (C11), in exact  *)
(* rationals.  Inputs: element position/size e = <<ex, ey, ew, eh>>,       *)
(* viewBox vb = <<vbx, vby, vbw, vbh>>, align in the ten values, mos in    *)
(* {"", "meet", "slice"} ("" = absent = meet).  Output <<sx, sy, tx, ty>>: *)
(* the transform translate(tx, ty) scale(sx, sy).                          *)
(***************************************************************************)
EXTENDS Rat, Sequences

Aligns == {"none", "xMinYMin", "xMidYMin", "xMaxYMin", "xMinYMid", "xMidYMid", "xMaxYMid",
           "xMinYMax", "xMidYMax", "xMaxYMax"}
XAlign(a) == CASE a \in {"xMinYMin", "xMinYMid", "xMinYMax"} -> "min"
               [] a \in {"xMidYMin", "xMidYMid", "xMidYMax"} -> "mid"
               [] a \in {"xMaxYMin", "xMaxYMid", "xMaxYMax"} -> "max" [] OTHER -> "none"
YAlign(a) == CASE a \in {"xMinYMin", "xMidYMin", "xMaxYMin"} -> "min"
               [] a \in {"xMinYMid", "xMidYMid", "xMaxYMid"} -> "mid"
               [] a \in {"xMinYMax", "xMidYMax", "xMaxYMax"} -> "max" [] OTHER -> "none"

Equivalent(e, vb, align, mos) ==
  LET sx0 == RDiv(e[3], vb[3])                      \* 1. scale-x = e-width / vb-width
      sy0 == RDiv(e[4], vb[4])                      \* 2. scale-y = e-height / vb-height
      uni == IF mos = "slice" THEN RMax(sx0, sy0) ELSE RMin(sx0, sy0)   \* 3./4.
      sx  == IF align = "none" THEN sx0 ELSE uni
      sy  == IF align = "none" THEN sy0 ELSE uni
      tx0 == RSub(e[1], RMul(vb[1], sx))            \* 5.
      ty0 == RSub(e[2], RMul(vb[2], sy))            \* 6.
      fx  == RSub(e[3], RMul(vb[3], sx))            \* free space in x
      fy  == RSub(e[4], RMul(vb[4], sy))
      tx  == CASE XAlign(align) = "mid" -> RAdd(tx0, RDiv(fx, R(2)))   \* 7.
               [] XAlign(align) = "max" -> RAdd(tx0, fx)               \* 8.
               [] OTHER -> tx0
      ty  == CASE YAlign(align) = "mid" -> RAdd(ty0, RDiv(fy, R(2)))   \* 9.
               [] YAlign(align) = "max" -> RAdd(ty0, fy)               \* 10.
               [] OTHER -> ty0
  IN <<sx, sy, tx, ty>>

\* image of the viewBox rectangle under the transform: <<x0, y0, x1, y1>>
Image(t, vb) == <<RAdd(RMul(vb[1], t[1]), t[3]), RAdd(RMul(vb[2], t[2]), t[4]),
                  RAdd(RMul(RAdd(vb[1], vb[3]), t[1]), t[3]), RAdd(RMul(RAdd(vb[2], vb[4]), t[2]), t[4])>>

\* ---- the "hence" half of the property, as predicates on the result ---------
Inside(img, e)  == /\ RLe(e[1], img[1]) /\ RLe(img[3], RAdd(e[1], e[3]))
                   /\ RLe(e[2], img[2]) /\ RLe(img[4], RAdd(e[2], e[4]))
Covers(img, e)  == /\ RLe(img[1], e[1]) /\ RLe(RAdd(e[1], e[3]), img[3])
                   /\ RLe(img[2], e[2]) /\ RLe(RAdd(e[2], e[4]), img[4])
Touches(img, e) == RSub(img[3], img[1]) = e[3] \/ RSub(img[4], img[2]) = e[4]
AlignedX(img, e, a) ==
  CASE XAlign(a) = "min" -> img[1] = e[1]
    [] XAlign(a) = "max" -> img[3] = RAdd(e[1], e[3])
    [] XAlign(a) = "mid" -> RAdd(img[1], img[3]) = RAdd(RMul(R(2), e[1]), e[3])
    [] OTHER -> img[1] = e[1] /\ img[3] = RAdd(e[1], e[3])
AlignedY(img, e, a) ==
  CASE YAlign(a) = "min" -> img[2] = e[2]
    [] YAlign(a) = "max" -> img[4] = RAdd(e[2], e[4])
    [] YAlign(a) = "mid" -> RAdd(img[2], img[4]) = RAdd(RMul(R(2), e[2]), e[4])
    [] OTHER -> img[2] = e[2] /\ img[4] = RAdd(e[2], e[4])
Hence(e, vb, a, mos) ==
  LET img == Image(Equivalent(e, vb, a, mos), vb) IN
  /\ AlignedX(img, e, a) /\ AlignedY(img, e, a)
  /\ (a # "none" /\ mos # "slice") => (Inside(img, e) /\ Touches(img, e))
  /\ (a # "none" /\ mos = "slice") => (Covers(img, e) /\ Touches(img, e))
=============================================================================
