------------------------------- MODULE Affine -------------------------------
(* 2-D affine maps over exact rationals.  A map is <<a, b, c, d, e, f>>:     *)
(*   x' = a x + c y + e ,  y' = b x + d y + f      (SVG 7.15.3 layout)       *)
(* Then(A, B) is "A first, then B".  SVG transform lists apply the           *)
(* right-most function first; svgelements' A * B is Then(A, B).              *)
EXTENDS Rat, Sequences

Id == <<ROne, RZero, RZero, ROne, RZero, RZero>>
Apply(M, p) == <<RAdd(RAdd(RMul(M[1], p[1]), RMul(M[3], p[2])), M[5]),
                 RAdd(RAdd(RMul(M[2], p[1]), RMul(M[4], p[2])), M[6])>>
\* B o A
Then(A, B) ==
  <<RAdd(RMul(B[1], A[1]), RMul(B[3], A[2])),
    RAdd(RMul(B[2], A[1]), RMul(B[4], A[2])),
    RAdd(RMul(B[1], A[3]), RMul(B[3], A[4])),
    RAdd(RMul(B[2], A[3]), RMul(B[4], A[4])),
    RAdd(RAdd(RMul(B[1], A[5]), RMul(B[3], A[6])), B[5]),
    RAdd(RAdd(RMul(B[2], A[5]), RMul(B[4], A[6])), B[6])>>
Det(M) == RSub(RMul(M[1], M[4]), RMul(M[3], M[2]))
Inverse(M) ==
  LET k == RDiv(ROne, Det(M)) IN
  <<RMul(M[4], k), RNeg(RMul(M[2], k)), RNeg(RMul(M[3], k)), RMul(M[1], k),
    RMul(RSub(RMul(M[3], M[6]), RMul(M[5], M[4])), k),
    RMul(RSub(RMul(M[2], M[5]), RMul(M[1], M[6])), k)>>

Translate(tx, ty) == <<ROne, RZero, RZero, ROne, tx, ty>>
Scale(sx, sy)     == <<sx, RZero, RZero, sy, RZero, RZero>>
\* rotation by an angle given through its exact cosine and sine
Rotate(cs, sn)    == <<cs, sn, RNeg(sn), cs, RZero, RZero>>
\* skew by angles given through their exact tangents: x' = x + tan(ax) y ; y' = tan(ay) x + y
Skew(tx, ty)      == <<ROne, ty, tx, ROne, RZero, RZero>>
\* E about the centre (cx, cy): T(c) o E o T(-c)
About(E, cx, cy)  == Then(Then(Translate(RNeg(cx), RNeg(cy)), E), Translate(cx, cy))
=============================================================================
