------------------------------- MODULE Color -------------------------------
(***************************************************************************)
(* Colour spellings of SVG 1.1 section 4.2 / CSS Color 3 (C13) and the     *)
(* accessor state machine.  A colour is <<r, g, b, a>> with 8-bit          *)
(* channels; in the functional spellings, where CSS leaves a channel as a  *)
(* real number, every channel is the exact rational <<n, d>> of 255ths so  *)
(* that an implementation may round it either way.                         *)
(***************************************************************************)
EXTENDS Rat, Sequences, ColorTable

HexVal(c) == CASE c = "0" -> 0 [] c = "1" -> 1 [] c = "2" -> 2 [] c = "3" -> 3 [] c = "4" -> 4
               [] c = "5" -> 5 [] c = "6" -> 6 [] c = "7" -> 7 [] c = "8" -> 8 [] c = "9" -> 9
               [] c = "a" -> 10 [] c = "b" -> 11 [] c = "c" -> 12 [] c = "d" -> 13
               [] c = "e" -> 14 [] c = "f" -> 15
HexDigits == {"0", "1", "2", "3", "4", "5", "6", "7", "8", "9", "a", "b", "c", "d", "e", "f"}

\* #rgb #rgba #rrggbb #rrggbbaa : digits as a sequence of one-character strings
FromHex(h) ==
  LET D(i) == HexVal(h[i]) IN
  CASE Len(h) = 3 -> <<17 * D(1), 17 * D(2), 17 * D(3), 255>>
    [] Len(h) = 4 -> <<17 * D(1), 17 * D(2), 17 * D(3), 17 * D(4)>>
    [] Len(h) = 6 -> <<16 * D(1) + D(2), 16 * D(3) + D(4), 16 * D(5) + D(6), 255>>
    [] Len(h) = 8 -> <<16 * D(1) + D(2), 16 * D(3) + D(4), 16 * D(5) + D(6), 16 * D(7) + D(8)>>

\* a real-valued channel x (rational, already scaled to 0..255) clamped; integer when exact
Chan(x) == RMax(RZero, RMin(R(255), x))       \* a rational <<n, d>>; integral iff d = 1
\* alpha given as a rational opacity (NONE = omitted = opaque)
Alpha(o) == IF o = <<>> THEN R(255) ELSE Chan(RMul(R(255), o))

\* rgb(r, g, b [, a]) with numbers: clamped to 0..255
FromRgb(r, g, b, o)  == <<Chan(r), Chan(g), Chan(b), Alpha(o)>>
\* rgb(r%, g%, b% [, a])
FromRgbP(r, g, b, o) == <<Chan(RDiv(RMul(r, R(255)), R(100))), Chan(RDiv(RMul(g, R(255)), R(100))),
                          Chan(RDiv(RMul(b, R(255)), R(100))), Alpha(o)>>

\* hsl(h, s%, l% [, a]) : CSS Color 3 section 4.2.4, hue in degrees modulo a full turn
RECURSIVE ModTurn(_)
ModTurn(h) == IF RLt(h, RZero) THEN ModTurn(RAdd(h, ROne))
              ELSE IF RLe(ROne, h) THEN ModTurn(RSub(h, ROne)) ELSE h
HueToRgb(m1, m2, h0) ==
  LET h == ModTurn(h0) IN
  IF RLt(RMul(h, R(6)), ROne) THEN RAdd(m1, RMul(RMul(RSub(m2, m1), h), R(6)))
  ELSE IF RLt(RMul(h, R(2)), ROne) THEN m2
  ELSE IF RLt(RMul(h, R(3)), R(2)) THEN RAdd(m1, RMul(RMul(RSub(m2, m1), RSub(Q(2, 3), h)), R(6)))
  ELSE m1
FromHsl(hdeg, sp, lp, o) ==
  LET h  == ModTurn(RDiv(hdeg, R(360)))
      s  == RMax(RZero, RMin(ROne, RDiv(sp, R(100))))
      l  == RMax(RZero, RMin(ROne, RDiv(lp, R(100))))
      m2 == IF RLe(l, Q(1, 2)) THEN RMul(l, RAdd(s, ROne)) ELSE RSub(RAdd(l, s), RMul(l, s))
      m1 == RSub(RMul(l, R(2)), m2)
  IN <<Chan(RMul(R(255), HueToRgb(m1, m2, RAdd(h, Q(1, 3))))),
       Chan(RMul(R(255), HueToRgb(m1, m2, h))),
       Chan(RMul(R(255), HueToRgb(m1, m2, RSub(h, Q(1, 3))))), Alpha(o)>>

\* HSL of an 8-bit colour (exact rationals): <<hue in turns, saturation, lightness>>
ToHsl(c) ==
  LET r == Q(c[1], 255)  g == Q(c[2], 255)  b == Q(c[3], 255)
      mx == RMax(r, RMax(g, b))  mn == RMin(r, RMin(g, b))
      d == RSub(mx, mn)  l == RDiv(RAdd(mx, mn), R(2))
      s == IF d = RZero THEN RZero
           ELSE IF RLe(l, Q(1, 2)) THEN RDiv(d, RAdd(mx, mn)) ELSE RDiv(d, RSub(R(2), RAdd(mx, mn)))
      h == IF d = RZero THEN RZero
           ELSE IF mx = r THEN ModTurn(RDiv(RDiv(RSub(g, b), d), R(6)))
           ELSE IF mx = g THEN ModTurn(RAdd(Q(1, 3), RDiv(RDiv(RSub(b, r), d), R(6))))
           ELSE ModTurn(RAdd(Q(2, 3), RDiv(RDiv(RSub(r, g), d), R(6))))
  IN <<h, s, l>>

Clamp8(v) == IF v < 0 THEN 0 ELSE IF v > 255 THEN 255 ELSE v
=============================================================================
