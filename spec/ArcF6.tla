------------------------------- MODULE ArcF6 -------------------------------
(***************************************************************************)
(* Elliptical arcs in endpoint form, SVG implementation note F.6 (C05).    *)
(* Cases are constructed FROM THE ANSWER: an ellipse with rational centre, *)
(* radii and a rotation given by an exact (cos, sin), and two parameter    *)
(* angles with exact (cos, sin).  The end points are then rational, and    *)
(* F.6.5 determines, for each flag pair, which of the four candidate arcs  *)
(* through the two points is meant:                                        *)
(*   the ellipse centred c or its mirror image c' = start + end - c,       *)
(*   traversed in the positive or the negative angle direction.            *)
(* An angle is <<cos, sin>>; the parameter angle theta of a point p on the *)
(* ellipse satisfies p = c + R(phi) (rx cos theta, ry sin theta).          *)
(***************************************************************************)
EXTENDS Rat, Sequences

\* angle arithmetic on (cos, sin) pairs
ASub(a, b) == <<RAdd(RMul(a[1], b[1]), RMul(a[2], b[2])), RSub(RMul(a[2], b[1]), RMul(a[1], b[2]))>>   \* a - b
AAdd(a, b) == <<RSub(RMul(a[1], b[1]), RMul(a[2], b[2])), RAdd(RMul(a[2], b[1]), RMul(a[1], b[2]))>>   \* a + b
ANeg(a)    == <<a[1], RNeg(a[2])>>
APi(a)     == <<RNeg(a[1]), RNeg(a[2])>>                                                            \* a + 180 degrees
\* an extent in (0, 360): more than a half turn iff its sine is negative
IsZero(d)  == d = <<ROne, RZero>>
IsHalf(d)  == d = <<RNeg(ROne), RZero>>
MoreThanHalf(d) == RLt(d[2], RZero)

\* point of the ellipse (c, rx, ry, phi) at parameter angle th
EllipsePoint(c, rx, ry, phi, th) ==
  LET u == RMul(rx, th[1])  v == RMul(ry, th[2]) IN
  <<RAdd(c[1], RSub(RMul(u, phi[1]), RMul(v, phi[2]))),
    RAdd(c[2], RAdd(RMul(u, phi[2]), RMul(v, phi[1])))>>

\* The arc meant by (start, rx, ry, phi, fa, fs, end) when start/end are the points of the
\* ellipse (c, rx, ry, phi) at parameter angles t1, t2 (t1 # t2):
\*   <<centre, start angle, extent (an angle in (0,360)), direction (+1/-1)>>
Expected(c, rx, ry, phi, t1, t2, fa, fs) ==
  LET d     == ASub(t2, t1)                       \* positive extent from t1 to t2 on the ellipse c
      p1    == EllipsePoint(c, rx, ry, phi, t1)
      p2    == EllipsePoint(c, rx, ry, phi, t2)
      cm    == <<RSub(RAdd(p1[1], p2[1]), c[1]), RSub(RAdd(p1[2], p2[2]), c[2])>>   \* mirrored centre
      small == ~MoreThanHalf(d)                    \* d <= 180
      \* candidates:  c, +, d  |  c, -, 360-d  |  c', -, d  |  c', +, 360-d
      onC   == IF IsHalf(d) THEN TRUE
               ELSE IF fs = 1 THEN (fa = 1) = MoreThanHalf(d)      \* positive: c has extent d
                    ELSE (fa = 1) = small                          \* negative: c has extent 360-d
  IN IF onC THEN <<c, t1, IF fs = 1 THEN d ELSE ANeg(d), IF fs = 1 THEN 1 ELSE -1>>
     ELSE <<cm, APi(t2), IF fs = 1 THEN ANeg(d) ELSE d, IF fs = 1 THEN 1 ELSE -1>>

\* implicit equation of the ellipse (c, rx, ry, phi) at point p, = 1 on the ellipse
Implicit(c, rx, ry, phi, p) ==
  LET dx == RSub(p[1], c[1])  dy == RSub(p[2], c[2])
      x  == RAdd(RMul(dx, phi[1]), RMul(dy, phi[2]))
      y  == RSub(RMul(dy, phi[1]), RMul(dx, phi[2]))
  IN RAdd(RDiv(RMul(x, x), RMul(rx, rx)), RDiv(RMul(y, y), RMul(ry, ry)))
=============================================================================
