----------------------------- MODULE CssLength -----------------------------
(***************************************************************************)
(* CSS lengths (C12).  A length is <<amount, unit>> with a rational amount.*)
(* Resolve gives its value in user units in a context                      *)
(*   ctx = <<ppi, ref, font size, font x-height, viewBox <<w, h>>>>        *)
(* (each component may be NONE; ref is itself a length), or SYM when the   *)
(* context lacks what is needed - a length is never guessed.               *)
(* Absolute ratios: 1in = ppi = 2.54cm = 25.4mm, 1pt = 4/3, 1pc = 16,      *)
(* px = unitless = 1 (CSS Values 3, section 5.2).                          *)
(***************************************************************************)
EXTENDS Rat, Sequences

NONE == <<>>
SYM  == <<"sym">>

Units    == {"", "px", "pt", "pc", "in", "cm", "mm", "%", "em", "ex", "vw", "vh", "vmin", "vmax"}
PixelFam == {"", "px", "pt", "pc"}
InchFam  == {"in", "cm", "mm"}
PxFactor(u) == CASE u \in {"", "px"} -> ROne [] u = "pt" -> Q(4, 3) [] u = "pc" -> R(16)
InFactor(u) == CASE u = "in" -> ROne [] u = "cm" -> Q(50, 127) [] u = "mm" -> Q(5, 127)

\* value of an absolute or font/viewBox-relative length; ref handled by Resolve
Base(a, u, ctx) ==
  LET ppi == ctx[1]  fs == ctx[3]  fh == ctx[4]  vb == ctx[5] IN
  CASE u \in PixelFam -> RMul(a, PxFactor(u))
    [] u \in InchFam  -> IF ppi = NONE THEN SYM ELSE RMul(RMul(a, InFactor(u)), ppi)
    [] u = "em"   -> IF fs = NONE THEN SYM ELSE RMul(a, fs)
    [] u = "ex"   -> IF fh = NONE THEN SYM ELSE RMul(a, fh)
    [] u = "vw"   -> IF vb = NONE THEN SYM ELSE RDiv(RMul(a, vb[1]), R(100))
    [] u = "vh"   -> IF vb = NONE THEN SYM ELSE RDiv(RMul(a, vb[2]), R(100))
    [] u = "vmin" -> IF vb = NONE THEN SYM ELSE RDiv(RMul(a, RMin(vb[1], vb[2])), R(100))
    [] u = "vmax" -> IF vb = NONE THEN SYM ELSE RDiv(RMul(a, RMax(vb[1], vb[2])), R(100))
    [] OTHER -> SYM

Resolve(a, u, ctx) ==
  IF u = "%" THEN
     IF ctx[2] = NONE THEN SYM
     ELSE LET r == Base(ctx[2][1], ctx[2][2], ctx) IN
          IF r = SYM THEN SYM ELSE RDiv(RMul(a, r), R(100))
  ELSE Base(a, u, ctx)

\* two units whose ratio is known without any context
Commensurable(u, v) == (u \in PixelFam /\ v \in PixelFam) \/ (u \in InchFam /\ v \in InchFam) \/ u = v

\* binary operations, evaluated in a context that resolves everything
Sum(a, u, b, v, ctx)  == RAdd(Resolve(a, u, ctx), Resolve(b, v, ctx))
Diff(a, u, b, v, ctx) == RSub(Resolve(a, u, ctx), Resolve(b, v, ctx))
Ratio(a, u, b, v, ctx) == RDiv(Resolve(a, u, ctx), Resolve(b, v, ctx))
Less(a, u, b, v, ctx) == RLt(Resolve(a, u, ctx), Resolve(b, v, ctx))
Same(a, u, b, v, ctx) == Resolve(a, u, ctx) = Resolve(b, v, ctx)

\* conversions (value / size of the target unit)
ToUnit(a, u, ctx, target) == RDiv(Resolve(a, u, ctx), RMul(InFactor(target), ctx[1]))
=============================================================================
