--------------------------- MODULE TransformList ---------------------------
(***************************************************************************)
(* SVG 1.1 section 7.6 / CSS Transforms 2-D: the matrix of every transform *)
(* function and the denotation of a transform list (C04).                  *)
(*                                                                         *)
(* A function instance is <<name, nums, angs>>: nums = rational arguments  *)
(* (lengths, factors, centre), angs = angle ids into AngleTab.  An angle   *)
(* is carried by its exact cosine and sine (Pythagorean or multiples of    *)
(* 90 degrees) plus a number of extra full turns used only for spelling.   *)
(***************************************************************************)
EXTENDS Affine

\* id -> <<cos, sin, extra turns>>
AngleTab == <<
  <<Q(0, 1), Q(1, 1), 0>>,          \* 1:  90 deg
  <<Q(-1, 1), Q(0, 1), 0>>,         \* 2:  180 deg
  <<Q(0, 1), Q(-1, 1), 0>>,         \* 3:  -90 deg
  <<Q(3, 5), Q(4, 5), 0>>,          \* 4:  atan(4/3) = 53.13.. deg
  <<Q(12, 13), Q(-5, 13), 0>>,      \* 5:  -22.62.. deg
  <<Q(0, 1), Q(1, 1), 1>>,          \* 6:  450 deg
  <<Q(1, 1), Q(0, 1), -1>>,         \* 7:  -360 deg
  <<Q(4, 5), Q(3, 5), 0>>,          \* 8:  36.87.. deg (tan 3/4)
  <<Q(5, 13), Q(12, 13), -1>> >>    \* 9:  67.38.. - 360 deg (tan 12/5)
Cos(i) == AngleTab[i][1]
Sin(i) == AngleTab[i][2]
Tan(i) == RDiv(Sin(i), Cos(i))      \* only used for ids with non-zero cosine

FuncMatrix(f) ==
  LET n == f[2]  a == f[3] IN
  CASE f[1] = "matrix"     -> <<n[1], n[2], n[3], n[4], n[5], n[6]>>
    [] f[1] = "translate"  -> Translate(n[1], IF Len(n) >= 2 THEN n[2] ELSE RZero)
    [] f[1] = "translatex" -> Translate(n[1], RZero)
    [] f[1] = "translatey" -> Translate(RZero, n[1])
    [] f[1] = "scale"      -> Scale(n[1], IF Len(n) >= 2 THEN n[2] ELSE n[1])
    [] f[1] = "scalex"     -> Scale(n[1], ROne)
    [] f[1] = "scaley"     -> Scale(ROne, n[1])
    [] f[1] = "rotate"     -> IF Len(n) >= 2 THEN About(Rotate(Cos(a[1]), Sin(a[1])), n[1], n[2])
                              ELSE Rotate(Cos(a[1]), Sin(a[1]))
    [] f[1] = "skew"       -> Skew(Tan(a[1]), IF Len(a) >= 2 THEN Tan(a[2]) ELSE RZero)
    [] f[1] = "skewx"      -> Skew(Tan(a[1]), RZero)
    [] f[1] = "skewy"      -> Skew(RZero, Tan(a[1]))
    \* centred variants exist only as Matrix methods (pre_/post_scale(sx, sy, cx, cy) ...), not in the list syntax
    [] f[1] = "scale_at"   -> About(Scale(n[1], n[2]), n[3], n[4])
    [] f[1] = "skewx_at"   -> About(Skew(Tan(a[1]), RZero), n[1], n[2])
    [] f[1] = "skewy_at"   -> About(Skew(RZero, Tan(a[1])), n[1], n[2])

\* "f1 f2 ... fn": the right-most function is applied to a point first
RECURSIVE Denote(_)
Denote(l) == IF l = <<>> THEN Id ELSE Then(Denote(Tail(l)), FuncMatrix(Head(l)))
=============================================================================
