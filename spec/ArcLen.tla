------------------------------- MODULE ArcLen -------------------------------
(***************************************************************************)
(* Arc length (C15) on the exactly decidable family.                       *)
(*  - A Bezier whose control points are collinear is a 1-D polynomial      *)
(*    a(t) along a direction d: its length is |d| times the total          *)
(*    variation of a on [0,1], rational whenever the roots of a' are.      *)
(*  - Polylines over Pythagorean directions have integer edge lengths.     *)
(*  - A circular arc of k quarter turns has length r k pi / 2.             *)
(*  - For every other segment the length is DEFINED as the integral of     *)
(*    the speed |P'(t)| over [0,1]; TLC cannot evaluate it, the harness    *)
(*    evaluates that definition from the specification's exact data by     *)
(*    Gauss-Legendre quadrature (tagged comparator, see harness/c15.py).   *)
(*  - Walk: point(t) of a path = the point at the corresponding fraction   *)
(*    of the segment whose cumulative-length interval contains t.          *)
(***************************************************************************)
EXTENDS Rat, Sequences

RECURSIVE ISqrtFrom(_, _)
ISqrtFrom(n, k) == IF k * k >= n THEN k ELSE ISqrtFrom(n, k + 1)
ISqrt(n) == ISqrtFrom(n, 0)                     \* smallest k with k*k >= n
IsSquare(n) == n >= 0 /\ ISqrt(n) * ISqrt(n) = n

\* value of the 1-D Bezier with integer controls a at rational t (de Casteljau)
L1(x, y, t) == RAdd(x, RMul(t, RSub(y, x)))
Val(a, t) ==
  IF Len(a) = 3 THEN L1(L1(R(a[1]), R(a[2]), t), L1(R(a[2]), R(a[3]), t), t)
  ELSE LET p == L1(R(a[1]), R(a[2]), t)  q == L1(R(a[2]), R(a[3]), t)  r == L1(R(a[3]), R(a[4]), t)
       IN L1(L1(p, q, t), L1(q, r, t), t)

Inside(t) == RLt(RZero, t) /\ RLt(t, ROne)
\* interior critical parameters of a (a set of rationals), or <<"irrational">> when a' has irrational roots in play
Critical(a) ==
  IF Len(a) = 3 THEN
     LET den == a[1] - 2 * a[2] + a[3] IN
     IF den = 0 THEN {} ELSE {t \in {Q(a[1] - a[2], den)} : Inside(t)}
  ELSE
     LET A == a[4] - 3 * a[3] + 3 * a[2] - a[1]
         B == a[3] - 2 * a[2] + a[1]
         C == a[2] - a[1]
         D == B * B - A * C
     IN IF A = 0 THEN (IF B = 0 THEN {} ELSE {t \in {Q(-C, 2 * B)} : Inside(t)})
        ELSE IF D < 0 THEN {}
        ELSE {t \in {Q(-B + ISqrt(D), A), Q(-B - ISqrt(D), A)} : Inside(t)}
Decidable(a) ==
  IF Len(a) = 3 THEN TRUE
  ELSE LET A == a[4] - 3 * a[3] + 3 * a[2] - a[1]
           B == a[3] - 2 * a[2] + a[1]
           C == a[2] - a[1]
           D == B * B - A * C
       IN IF A = 0 THEN TRUE ELSE IF D < 0 THEN TRUE ELSE IsSquare(D)

\* total variation: sum of |differences| over the breakpoints 0 < critical points < 1 in increasing order
TV(a) ==
  LET cs == Critical(a)
      lo == IF cs = {} THEN ROne ELSE CHOOSE t \in cs : \A s \in cs : RLe(t, s)
      hi == IF cs = {} THEN ROne ELSE CHOOSE t \in cs : \A s \in cs : RLe(s, t)
      v0 == R(a[1])  v1 == R(a[Len(a)])
  IN IF cs = {} THEN RAbs(RSub(v1, v0))
     ELSE RAdd(RAdd(RAbs(RSub(Val(a, lo), v0)), RAbs(RSub(Val(a, hi), Val(a, lo)))), RAbs(RSub(v1, Val(a, hi))))

\* ---- walking a polyline path ------------------------------------------------
\* a path is a sequence of pieces <<p0, p1, len>> (len = 0 for a move, which jumps from p0 to p1)
RECURSIVE Total(_, _)
Total(p, i) == IF i > Len(p) THEN 0 ELSE p[i][3] + Total(p, i + 1)
Lerp(a, b, f) == <<RAdd(R(a[1]), RMul(f, R(b[1] - a[1]))), RAdd(R(a[2]), RMul(f, R(b[2] - a[2])))>>
\* set of admissible points at fraction t (two when t falls exactly on a boundary with a jump)
RECURSIVE WalkFrom(_, _, _, _)
WalkFrom(p, i, done, target) ==      \* done = length before piece i; target = t * total (rational)
  IF i > Len(p) THEN {}
  ELSE LET l == p[i][3]
           here == IF l > 0 /\ RLe(R(done), target) /\ RLe(target, R(done + l))
                   THEN {Lerp(p[i][1], p[i][2], RDiv(RSub(target, R(done)), R(l)))} ELSE {}
       IN here \cup WalkFrom(p, i + 1, done + l, target)
Walk(p, t) == IF Total(p, 1) = 0 THEN {} ELSE WalkFrom(p, 1, 0, RMul(t, R(Total(p, 1))))
=============================================================================
