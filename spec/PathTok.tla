----------------------------- MODULE PathTok -----------------------------
(***************************************************************************)
(* A TOTAL token-level parser for SVG path data (C09).  Where PathInterp   *)
(* only defines grammar-conforming behaviours, PathTok defines what ANY    *)
(* token sequence means: the commands of the longest conforming prefix are *)
(* executed (by PathInterp!Exec), the first token that cannot continue a   *)
(* conforming string freezes the result ("render up to the error").        *)
(*                                                                         *)
(* token: <<"c", letter>> | <<"n", integer>> | <<"x", k>> (junk no. k)     *)
(* parser state ts = <<status, mode, pend, ngroups, ist>>                  *)
(*   status  "ok" | "error" | "lax" (SVG 1.1 / SVG 2 disagree or the text  *)
(*           leaves the meaning open: only totality is demanded)           *)
(*   mode    letter in force, "" before the first command                  *)
(*   pend    numbers collected for the current argument group              *)
(*   ngroups complete groups executed for the command in force             *)
(*   ist     PathInterp state <<cur, zp, ctl, deg, segs>>                  *)
(***************************************************************************)
EXTENDS PathInterp

TokInit == <<"ok", "", <<>>, 0, <<NONE, NONE, NONE, 0, <<>>>>>>

Stop(ts, st) == <<st, ts[2], ts[3], ts[4], ts[5]>>

NeedsArgs(m) == m # "" /\ Upper(m) # "Z"

TokStep(ts, tok) ==
  LET status == ts[1]  mode == ts[2]  pend == ts[3]  ng == ts[4]  ist == ts[5]
      cp == ist[1]
  IN
  IF status # "ok" THEN ts
  ELSE IF tok[1] = "c" THEN
    LET l == tok[2] IN
    IF Upper(l) = "Z" THEN
       IF NeedsArgs(mode) /\ (pend # <<>> \/ ng = 0) THEN
          \* a close path inside an argument group: SVG 2 segment-completing close
          IF Completable(mode) /\ ng = 0 /\ Len(pend) = Arity(mode) - 2 /\ cp # NONE
            THEN <<"ok", "z", <<>>, 0, Exec(ist, <<mode, pend, FALSE, TRUE>>)>>
          ELSE IF Completable(mode) /\ ng = 0 /\ Len(pend) % 2 = 0 /\ Len(pend) < Arity(mode) - 2
            THEN Stop(ts, "lax")      \* more than the final pair missing: meaning left open
          ELSE Stop(ts, "error")
       ELSE IF cp = NONE THEN Stop(ts, "error")             \* data must begin with a moveto
       ELSE <<"ok", "z", <<>>, 0, Exec(ist, <<l, <<>>, FALSE, FALSE>>)>>
    ELSE IF pend # <<>> THEN Stop(ts, "error")               \* incomplete argument group
    ELSE IF NeedsArgs(mode) /\ ng = 0 THEN Stop(ts, "error") \* previous command had no arguments
    ELSE IF cp = NONE /\ Upper(l) # "M" THEN Stop(ts, "error")
    ELSE <<"ok", l, <<>>, 0, ist>>
  ELSE IF tok[1] = "n" THEN
    LET v == tok[2] IN
    IF ~NeedsArgs(mode) THEN Stop(ts, "error")               \* a number where a command is required
    ELSE IF Upper(mode) = "A" /\ Len(pend) \in {3, 4} /\ v \notin {0, 1} THEN Stop(ts, "error")
    ELSE IF Upper(mode) = "A" /\ Len(pend) \in {0, 1} /\ v < 0 THEN Stop(ts, "lax")  \* 1.1: error, 2: |r|
    ELSE
      LET p2 == Append(pend, v) IN
      IF Len(p2) < Arity(mode) THEN <<"ok", mode, p2, ng, ist>>
      ELSE <<"ok", InForce(<<mode, p2, FALSE, FALSE>>), <<>>, ng + 1,
             Exec(ist, <<mode, p2, ng > 0, FALSE>>)>>
  ELSE Stop(ts, "error")                                     \* junk

TokEnd(ts) ==
  IF ts[1] = "ok" /\ (ts[3] # <<>> \/ (NeedsArgs(ts[2]) /\ ts[4] = 0)) THEN Stop(ts, "error") ELSE ts

RECURSIVE RunFrom(_, _, _)
RunFrom(ts, toks, i) == IF i > Len(toks) THEN TokEnd(ts) ELSE RunFrom(TokStep(ts, toks[i]), toks, i + 1)
RunTokens(toks) == RunFrom(TokInit, toks, 1)

\* tokens of a PathInterp history
CmdToks(c) == (IF c[3] THEN <<>> ELSE <<<<"c", c[1]>>>>)
              \o [i \in 1..Len(c[2]) |-> <<"n", c[2][i]>>]
              \o (IF c[4] THEN <<<<"c", "z">>>> ELSE <<>>)
RECURSIVE Flatten(_)
Flatten(h) == IF h = <<>> THEN <<>> ELSE CmdToks(Head(h)) \o Flatten(Tail(h))
=============================================================================
