---------------------------- MODULE PathWrite ----------------------------
(***************************************************************************)
(* The path-data WRITER as a fold over the segment list (C07), and the     *)
(* round-trip law  Interp(Write(p, relative, smooth)) = p  where Interp is *)
(* PathInterp's Exec.  Written like Path.svg_d: running current point,     *)
(* per-call options relative in {"none","abs","rel"} (none = as parsed)    *)
(* and smooth in {"none","on","off"} (none = as parsed); the smooth        *)
(* shorthand S/T is used only when the first control point really is what  *)
(* the interpreter will reconstruct.                                       *)
(***************************************************************************)
EXTENDS PathInterp

Sub(p, q) == <<p[1] - q[1], p[2] - q[2]>>

\* would the interpreter, arriving after segment `prev`, reconstruct g's first control?
SmoothFrom(prev, g) ==
  IF g[1] = "C" THEN
     IF prev # NONE /\ prev[1] = "C" THEN g[3] = Refl(prev[4], g[2]) ELSE g[3] = g[2]
  ELSE \* "Q"
     IF prev # NONE /\ prev[1] = "Q" THEN g[3] = Refl(prev[3], g[2]) ELSE g[3] = g[2]

\* one segment -> one command <<letter, args, FALSE, FALSE>>
\* fl = <<parsed relative?, parsed smooth?>> of this segment
WriteSeg(prev, g, cp, fl, relopt, smopt) ==
  LET rel == (cp # NONE) /\ (IF relopt = "none" THEN fl[1] ELSE relopt = "rel")
      sm  == (IF smopt = "none" THEN fl[2] ELSE smopt = "on") /\ SmoothFrom(prev, g)
      O(p) == IF rel THEN Sub(p, cp) ELSE p
      L(u, l) == IF rel THEN l ELSE u
  IN
  CASE g[1] = "M" -> <<L("M", "m"), O(g[5]), FALSE, FALSE>>
    [] g[1] = "L" -> <<L("L", "l"), O(g[5]), FALSE, FALSE>>
    [] g[1] = "Z" -> <<L("Z", "z"), <<>>, FALSE, FALSE>>
    [] g[1] = "Q" -> IF sm THEN <<L("T", "t"), O(g[5]), FALSE, FALSE>>
                     ELSE <<L("Q", "q"), O(g[3]) \o O(g[5]), FALSE, FALSE>>
    [] g[1] = "C" -> IF sm THEN <<L("S", "s"), O(g[4]) \o O(g[5]), FALSE, FALSE>>
                     ELSE <<L("C", "c"), O(g[3]) \o O(g[4]) \o O(g[5]), FALSE, FALSE>>
    [] g[1] = "A" -> <<L("A", "a"), g[3] \o g[4] \o O(g[5]), FALSE, FALSE>>

RECURSIVE WriteFrom(_, _, _, _, _)
WriteFrom(sg, fls, i, relopt, smopt) ==
  IF i > Len(sg) THEN <<>>
  ELSE LET prev == IF i = 1 THEN NONE ELSE sg[i - 1]
           cp   == IF i = 1 THEN NONE ELSE sg[i - 1][5]
       IN <<WriteSeg(prev, sg[i], cp, fls[i], relopt, smopt)>> \o WriteFrom(sg, fls, i + 1, relopt, smopt)
Write(sg, fls, relopt, smopt) == WriteFrom(sg, fls, 1, relopt, smopt)

RECURSIVE InterpFrom(_, _, _)
InterpFrom(st, cmds, i) == IF i > Len(cmds) THEN st ELSE InterpFrom(Exec(st, cmds[i]), cmds, i + 1)
Interp(cmds) == InterpFrom(<<NONE, NONE, NONE, 0, <<>>>>, cmds, 1)[5]

RelOpts == {"none", "abs", "rel"}
SmOpts  == {"none", "on", "off"}
RoundTrips(sg, fls) == \A r \in RelOpts, s \in SmOpts : Interp(Write(sg, fls, r, s)) = sg
=============================================================================
