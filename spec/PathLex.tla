----------------------------- MODULE PathLex -----------------------------
(***************************************************************************)
(* The lexical grammar of SVG path data (SVG 1.1 section 8.3.9 BNF, SVG 2  *)
(* section 9.3.9 EBNF): numbers, flags, comma-wsp, with maximal munch.     *)
(* Input is a sequence of one-character strings.  A number is returned     *)
(* exactly as <<neg, mantissa, exp10>> (value = (-1)^neg * mantissa *      *)
(* 10^exp10).                                                              *)
(*                                                                         *)
(* status: "ok"  - conforms to both SVG 1.1 and SVG 2                      *)
(*         "lax" - the two grammars differ (digits followed by a bare '.', *)
(*                 exponent magnitude beyond double range): only totality  *)
(*                 is demanded of an implementation                        *)
(*         "bad" - does not conform; the numbers of the longest valid      *)
(*                 prefix are returned (render up to the error)            *)
(***************************************************************************)
EXTENDS Integers, Sequences

Wsp    == {" ", "\t", "\n", "\r", "\f"}
Digit  == {"0", "1", "2", "3", "4", "5", "6", "7", "8", "9"}
DigitVal(c) == CASE c = "0" -> 0 [] c = "1" -> 1 [] c = "2" -> 2 [] c = "3" -> 3 [] c = "4" -> 4
                 [] c = "5" -> 5 [] c = "6" -> 6 [] c = "7" -> 7 [] c = "8" -> 8 [] c = "9" -> 9

At(s, i, S) == i <= Len(s) /\ s[i] \in S

RECURSIVE TakeDigits(_, _, _, _)
\* consume digits from position i; returns <<next position, value, number of digits>>
TakeDigits(s, i, v, n) ==
  IF At(s, i, Digit) THEN TakeDigits(s, i + 1, v * 10 + DigitVal(s[i]), n + 1) ELSE <<i, v, n>>

RECURSIVE SkipWsp(_, _)
SkipWsp(s, i) == IF At(s, i, Wsp) THEN SkipWsp(s, i + 1) ELSE i

\* comma-wsp? : optional white space with at most one comma
CommaWspOpt(s, i) == LET j == SkipWsp(s, i) IN IF At(s, j, {","}) THEN SkipWsp(s, j + 1) ELSE j

\* number at position i -> <<status, next, neg, mantissa, exp10>>
ScanNumber(s, i) ==
  LET sg     == IF At(s, i, {"+", "-"}) THEN 1 ELSE 0
      neg    == sg = 1 /\ s[i] = "-"
      a      == TakeDigits(s, i + sg, 0, 0)                  \* integer part
      hasdot == At(s, a[1], {"."})
      b      == IF hasdot THEN TakeDigits(s, a[1] + 1, a[2], 0) ELSE <<a[1], a[2], 0>>
      nint   == a[3]
      nfrac  == b[3]
  IN
  IF nint = 0 /\ nfrac = 0 THEN <<"bad", i, FALSE, 0, 0>>
  ELSE
    LET baredot == hasdot /\ nfrac = 0                       \* "12." : SVG 1.1 only
        j   == b[1]
        esg == IF At(s, j, {"e", "E"}) /\ At(s, j + 1, {"+", "-"}) THEN 1 ELSE 0
        eneg == esg = 1 /\ s[j + 1] = "-"
        e   == IF At(s, j, {"e", "E"}) THEN TakeDigits(s, j + 1 + esg, 0, 0) ELSE <<j, 0, 0>>
        hasexp == e[3] > 0                                   \* an exponent needs digits, else 'e' is left
        ev  == IF hasexp THEN (IF eneg THEN -e[2] ELSE e[2]) ELSE 0
        nxt == IF hasexp THEN e[1] ELSE j
        st  == IF baredot \/ ev > 300 \/ ev < -300 THEN "lax" ELSE "ok"
    IN <<st, nxt, neg, b[2], ev - nfrac>>

Num(n) == <<n[3], n[4], n[5]>>

(***************************************************************************)
(* number (comma-wsp? number)* wsp*  - the argument list of H, V; pairs of *)
(* it are the arguments of M, L, T, ...                                    *)
(***************************************************************************)
RECURSIVE LexRest(_, _, _, _)
LexRest(s, i, acc, lax) ==      \* a number has just ended before position i
  IF SkipWsp(s, i) > Len(s) THEN <<IF lax THEN "lax" ELSE "ok", acc>>
  ELSE LET k == CommaWspOpt(s, i) IN
       IF k > Len(s) THEN <<"bad", acc>>                     \* trailing comma
       ELSE LET n == ScanNumber(s, k) IN
            IF n[1] = "bad" THEN <<"bad", acc>>
            ELSE LexRest(s, n[2], Append(acc, Num(n)), lax \/ n[1] = "lax")

LexNumbers(s) ==
  LET k == SkipWsp(s, 1) IN
  IF k > Len(s) THEN <<"bad", <<>>>>
  ELSE LET n == ScanNumber(s, k) IN
       IF n[1] = "bad" THEN <<"bad", <<>>>>
       ELSE LexRest(s, n[2], <<Num(n)>>, n[1] = "lax")

(***************************************************************************)
(* One elliptical-arc argument group:                                      *)
(* number cw? number cw? number cw flag cw? flag cw? number cw? number     *)
(* (comma-wsp between the rotation and the first flag is mandatory).       *)
(* Returns <<status, <<rx, ry, rot, fa, fs, x, y>>>> with numbers as above *)
(* and flags 0/1; anything after the group must be white space.            *)
(***************************************************************************)
LexArcGroup(s) ==
  LET n1 == ScanNumber(s, SkipWsp(s, 1))
      n2 == ScanNumber(s, CommaWspOpt(s, n1[2]))
      n3 == ScanNumber(s, CommaWspOpt(s, n2[2]))
      p4 == CommaWspOpt(s, n3[2])
      sep == p4 > n3[2]                                      \* mandatory separator present
      f1ok == At(s, p4, {"0", "1"})
      p5 == CommaWspOpt(s, p4 + 1)
      f2ok == At(s, p5, {"0", "1"})
      n6 == ScanNumber(s, CommaWspOpt(s, p5 + 1))
      n7 == ScanNumber(s, CommaWspOpt(s, n6[2]))
  IN
  IF n1[1] = "bad" \/ n2[1] = "bad" \/ n3[1] = "bad" \/ ~sep \/ ~f1ok \/ ~f2ok
     \/ n6[1] = "bad" \/ n7[1] = "bad" \/ SkipWsp(s, n7[2]) <= Len(s)
  THEN <<"bad", <<>>>>
  ELSE <<IF "lax" \in {n1[1], n2[1], n3[1], n6[1], n7[1]} THEN "lax" ELSE "ok",
         <<Num(n1), Num(n2), Num(n3), DigitVal(s[p4]), DigitVal(s[p5]), Num(n6), Num(n7)>>>>
=============================================================================
