----------------------------- MODULE PathOps -----------------------------
(***************************************************************************)
(* Whole-path operations on the geometry abstraction (C16, C18, C07).      *)
(*                                                                         *)
(* A path is a sequence of segments <<kind, start, c1, c2, end>> as in     *)
(* PathInterp (arc: c1 = <<rx, ry, rot>>, c2 = <<large, sweep>>).          *)
(* Its GEOMETRY is the list of its sub-paths by the SVG rule (a move       *)
(* starts one, a close ends one, what follows a close without a move       *)
(* starts a new one at the same start point); each sub-path is             *)
(*   <<closed, firstpoint, edges>>                                         *)
(* edges = the drawn segments in order, the closing line included when it  *)
(* has non-zero length.  For a closed sub-path the edge list is cyclic.    *)
(***************************************************************************)
EXTENDS Integers, Sequences

NONE == <<>>

\* ---- building test paths from a word over kinds -------------------------
\* deterministic, pairwise distinct lattice points
P(k) == <<3 * k + 1, ((k * k) % 7) + 2 * k - 5>>

\* kinds: M L Q C A E Z and R (a line returning to the sub-path start: makes the next close zero-length)
\* builder state <<cur, zp, k, segs>>
BuildStep(b, kind) ==
  LET cur == b[1]  zp == b[2]  k == b[3]  segs == b[4]
      frag == cur = NONE                     \* fragment: drawing before any move
      s  == IF frag THEN P(k) ELSE cur
      k1 == IF frag THEN k + 1 ELSE k
      z1 == IF frag THEN NONE ELSE zp
  IN
  CASE kind = "M" -> <<P(k), P(k), k + 1, Append(segs, <<"M", NONE, NONE, NONE, P(k)>>)>>
    [] kind = "L" -> <<P(k1), z1, k1 + 1, Append(segs, <<"L", s, NONE, NONE, P(k1)>>)>>
    [] kind = "R" -> <<zp, zp, k, Append(segs, <<"L", cur, NONE, NONE, zp>>)>>
    [] kind = "Q" -> <<P(k1 + 1), z1, k1 + 2, Append(segs, <<"Q", s, P(k1), NONE, P(k1 + 1)>>)>>
    [] kind = "C" -> <<P(k1 + 2), z1, k1 + 3,
                       Append(segs, <<"C", s, P(k1), P(k1 + 1), P(k1 + 2)>>)>>
    [] kind = "A" -> <<P(k1), z1, k1 + 1,
                       Append(segs, <<"A", s, <<20 + k, 30 + k, 15 * (k % 5)>>, <<k % 2, (k \div 2) % 2>>, P(k1)>>)>>
    [] kind = "E" -> LET e == P(k1)                                  \* quarter of an axis-aligned ellipse: both end points lie on its axes
                         dx == IF e[1] > s[1] THEN e[1] - s[1] ELSE s[1] - e[1]
                         dy == IF e[2] > s[2] THEN e[2] - s[2] ELSE s[2] - e[2]
                     IN <<e, z1, k1 + 1, Append(segs, <<"A", s, <<dx, IF dy = 0 THEN 2 ELSE dy, 0>>, <<0, k % 2>>, e>>)>>
    [] kind = "Z" -> <<zp, zp, k, Append(segs, <<"Z", cur, NONE, NONE, zp>>)>>

\* which kinds may follow in a valid path (closes need a sub-path start; R needs cur # zp)
KindOK(b, kind) ==
  CASE kind = "Z" -> b[2] # NONE
    [] kind = "R" -> b[2] # NONE /\ b[1] # b[2]
    [] OTHER -> TRUE

\* ---- geometry abstraction ------------------------------------------------
RECURSIVE Ranges(_, _, _)
\* sub-path windows <<first, last>> of p, scanning from index i with the open window starting at st
Ranges(p, i, st) ==
  IF i > Len(p) THEN (IF st <= Len(p) THEN <<<<st, Len(p)>>>> ELSE <<>>)
  ELSE IF p[i][1] = "M" /\ i # st THEN <<<<st, i - 1>>>> \o Ranges(p, i + 1, i)
  ELSE IF p[i][1] = "Z" THEN <<<<st, i>>>> \o Ranges(p, i + 1, i + 1)
  ELSE Ranges(p, i + 1, st)

Drawn(g) == g[1] \notin {"M", "Z"}

SubGeo(p, w) ==
  LET a == w[1]  b == w[2]
      closed == p[b][1] = "Z"
      fp == IF p[a][1] = "M" THEN p[a][5] ELSE p[a][2]
      body == SelectSeq(SubSeq(p, a, b), Drawn)
      edges == IF closed /\ p[b][2] # p[b][5]
                 THEN Append(body, <<"L", p[b][2], NONE, NONE, p[b][5]>>) ELSE body
  IN <<closed, fp, edges>>

Geometry(p) == LET ws == Ranges(p, 1, 1) IN [i \in 1..Len(ws) |-> SubGeo(p, ws[i])]

\* ---- reversal on the abstraction ------------------------------------------
RevSeg(g) ==
  CASE g[1] = "L" -> <<"L", g[5], NONE, NONE, g[2]>>
    [] g[1] = "Q" -> <<"Q", g[5], g[3], NONE, g[2]>>
    [] g[1] = "C" -> <<"C", g[5], g[4], g[3], g[2]>>
    [] g[1] = "A" -> <<"A", g[5], g[3], <<g[4][1], 1 - g[4][2]>>, g[2]>>

RevList(s) == [i \in 1..Len(s) |-> s[Len(s) + 1 - i]]

MirrorSub(sp) ==
  LET edges == sp[3]
      rev == RevList([i \in 1..Len(edges) |-> RevSeg(edges[i])])
  IN IF sp[1] THEN <<TRUE, sp[2], rev>>
     ELSE <<FALSE, IF edges = <<>> THEN sp[2] ELSE edges[Len(edges)][5], rev>>

Mirror(geo) == RevList([i \in 1..Len(geo) |-> MirrorSub(geo[i])])

\* ---- integer affine maps (for histories interleaved with transforms) ------
\* map k: 1 = reflection x -> -x ; 2 = rotation by 90 degrees ; 3 = uniform scale 2 + translate
MapPt(k, q) == IF q = NONE THEN NONE
               ELSE CASE k = 1 -> <<-q[1], q[2]>> [] k = 2 -> <<-q[2], q[1]>>
                      [] k = 3 -> <<2 * q[1] + 1, 2 * q[2] - 3>>
MapSeg(k, g) ==
  IF g[1] = "A" THEN
     <<"A", MapPt(k, g[2]),
       CASE k = 1 -> <<g[3][1], g[3][2], -g[3][3]>>
         [] k = 2 -> <<g[3][1], g[3][2], g[3][3] + 90>>
         [] k = 3 -> <<2 * g[3][1], 2 * g[3][2], g[3][3]>>,
       IF k = 1 THEN <<g[4][1], 1 - g[4][2]>> ELSE g[4],
       MapPt(k, g[5])>>
  ELSE <<g[1], MapPt(k, g[2]), MapPt(k, g[3]), MapPt(k, g[4]), MapPt(k, g[5])>>
MapSub(k, sp) == <<sp[1], MapPt(k, sp[2]), [i \in 1..Len(sp[3]) |-> MapSeg(k, sp[3][i])]>>
MapGeo(k, geo) == [i \in 1..Len(geo) |-> MapSub(k, geo[i])]

\* ---- well-formedness of a geometry (the property's "connected") -----------
SubConnected(sp) ==
  LET e == sp[3] IN
  /\ \A i \in 1..(Len(e) - 1) : e[i][5] = e[i + 1][2]
  /\ (sp[1] /\ e # <<>>) => e[Len(e)][5] = e[1][2]
  /\ (~sp[1] /\ e # <<>>) => e[1][2] = sp[2]
GeoConnected(geo) == \A i \in 1..Len(geo) : SubConnected(geo[i])

\* multiset of points is irrelevant; the SET of points drawn through must be preserved
PointsOf(geo) == UNION {{geo[i][2]} \cup UNION {{geo[i][3][j][2], geo[i][3][j][5]} : j \in 1..Len(geo[i][3])}
                          : i \in 1..Len(geo)}
=============================================================================
