#!/bin/bash
# usage: tools/try_mutant.sh <patch.diff> <prop> [tier]   - run a check against a scratch copy of /repo + patch
set -u
PATCH=$1; PROP=$2; TIER=${3:-quick}
D=$(mktemp -d /tmp/mutrepo.XXXXXX)
rsync -a --exclude .git --exclude '*.pyc' --exclude __pycache__ /repo/ $D/
( cd $D && patch -p1 --fuzz=3 -s < $PATCH ) || { echo "PATCH DOES NOT APPLY"; rm -rf $D; exit 3; }
( cd /verif && VERIF_REPO=$D ./check $PROP --tier $TIER 2>&1 | tail -${LINES_OUT:-8} ); rc=${PIPESTATUS[0]}
rm -rf $D /verif/.work/alt-$(basename $D)
