#!/bin/bash
# usage: tools/try_round.sh <srcroot> C01 C02 ...   - run each delivered patchK.diff of each property against its quick check
SRC=$1; shift
for id in "$@"; do
  for k in 1 2 3; do
    f=$SRC/out-$id/patch$k.diff
    [ -f $f ] || continue
    out=$(LINES_OUT=40 /verif/tools/try_mutant.sh $f $id quick 2>&1)
    echo "$id-$k: $(echo "$out" | grep -E 'by clause|PATCH DOES NOT|MACHINERY' | head -2 | cut -c1-300) | $(echo "$out" | grep -E "^$id quick" | sed 's/.*violations=/violations=/')"
  done
done
