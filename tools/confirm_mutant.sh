#!/bin/bash
# usage: [MUT_SRC=/tmp/wt2] tools/confirm_mutant.sh C09 1 [number under /verif/seeded]  - independently confirm a seeded change delivered in $MUT_SRC/out-<id>/
# (demo passes on the pinned tree, fails with the patch; the repository's baseline tests still pass with the patch)
set -u
ID=$1; K=$2; N=${3:-$K}
SRC=${MUT_SRC:-/tmp/wt2}/out-$ID
OUT=/verif/seeded/$ID-$N
W=/tmp/confirm-$ID-$N
BASE=$(cat $SRC/BASE 2>/dev/null || echo 0766864); rm -rf $W; git -C /repo worktree add -q --detach $W $BASE || exit 2
cd $W
PYTHONPATH=$W /venv/bin/python $SRC/demo$K.py > $W.demo0.log 2>&1; d0=$?
git apply $SRC/patch$K.diff; ap=$?
PYTHONPATH=$W /venv/bin/python $SRC/demo$K.py > $W.demo1.log 2>&1; d1=$?
/venv/bin/python -c "import sys; sys.path.insert(0,'$W'); import svgelements" ; imp=$?
/verif/tools/baseline.py $W > $W.base.log 2>&1; b=$?
mkdir -p $OUT
cp $SRC/patch$K.diff $OUT/patch.diff; cp $SRC/demo$K.py $OUT/demo.py; cp $SRC/notes$K.md $OUT/notes.md 2>/dev/null
python3 - <<PY
import json
json.dump({"property": "$ID", "origin": "independent sub-agent given only the property text and a scratch worktree of commit $BASE",
 "confirmed": {"patch_applies_to_pinned_commit": $ap == 0, "imports": $imp == 0,
   "demo_exit_without_change": $d0, "demo_exit_with_change": $d1,
   "baseline_404_still_pass_with_change": $b == 0, "baseline_summary": open("$W.base.log").read().strip().splitlines()[:3]},
 "ran": ["git worktree add --detach $W $BASE", "PYTHONPATH=$W /venv/bin/python demo.py  (before and after git apply patch.diff)", "/verif/tools/baseline.py $W"],
 "needs_to_manifest": "see notes.md", "detected_by": "filled in by tools/score_mutants.py"}, open("$OUT/meta.json","w"), indent=1)
PY
cd /; git -C /repo worktree remove --force $W; rm -f $W.demo0.log $W.demo1.log $W.base.log
echo "confirmed $ID-$N (patch$K): apply=$ap demo0=$d0 demo1=$d1 import=$imp baseline=$b"
