#!/bin/bash
# usage: tools/run_all.sh [tier] [seed ...]   - every check once per seed; summary lines on stdout
TIER=${1:-quick}; shift
SEEDS=${@:-0}
cd /verif
for s in $SEEDS; do
  for id in C01 C02 C03 C04 C05 C06 C07 C08 C09 C10 C11 C12 C13 C14 C15 C16 C17 C18 C19 C20; do
    t0=$(date +%s)
    out=$(VERIF_SEED=$s ./check $id --tier $TIER 2>&1); rc=$?
    echo "seed=$s $id rc=$rc $(( $(date +%s)-t0 ))s $(echo "$out" | grep -c '^VIOLATION') violation lines | $(echo "$out" | tail -1 | cut -c1-160)"
    if [ $rc -ne 0 ]; then echo "$out" | grep -A1 "^VIOLATION" | cut -c1-600 | head -8; echo "$out" | tail -3 | cut -c1-600; fi
  done
done
