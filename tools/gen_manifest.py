#!/usr/bin/env python3
"""Regenerate /verif/MANIFEST.json from the table below (single source for the interface file)."""
import json, os
HERE = os.path.dirname(os.path.dirname(os.path.abspath(__file__)))
ALL = ["C%02d" % i for i in range(1, 21)]

CHECKS = {
 "C01": dict(
   technique="TLA+ spec PathInterp/PathLex model-checked by TLC; every reachable state (= command history) replayed into Path(d) and compared segment-wise",
   text="TLC enumerates every grammar-conforming behaviour of the path-data interpreter specification up to the command bound (all 20 letters, implicit repetition, completing z) and every short string of the number grammar; each behaviour's expected segment list comes from the TLA+ spec and is compared exactly with what the real parser builds. Exhaustive inside the bound, nothing outside it. Also TLC -simulate behaviours of 8 commands, and the same data through Path.extend(str) / Path.append(str).",
   note="Trusted: TLC, the transcription of SVG 8.3/9.3 into PathInterp.tla and PathLex.tla, the ~150-line projection/spelling code. Arc arguments are compared through the library's Arc constructor (C05 owns its meaning). Integer coordinates only.",
   design="5/C01"),
 "C09": dict(
   technique="TLA+ total token machine PathTok (over PathInterp) model-checked by TLC with single-token fault injection; final states replayed into Path.parse",
   text="TLC explores every conforming behaviour of <= MaxCmds commands, injects every single-token fault (truncate/delete/duplicate/replace/insert/drop leading move) and runs the total token-level parser specification, which defines status and retained segments for ANY tape; deadlock freedom, Frozen and AppendOnly are checked on the spec. Every distinct tape is spelled and fed to the real parser: exception type, retained prefix, numeric soundness, follow-up operations, independence from previously parsed (poisoned) data, and time on 1e5-command inputs. Also conforming data cut at every character position, TLC -simulate tapes of 4-6 commands with every single-token fault, and the other string entry points (insert, append, extend, item assignment, +=, +, reflected +).",
   note="Trusted: TLC, PathTok.tla's reading of 'longest valid prefix', spelling table for junk tokens. Lenient extra segments beyond the first error are accepted if numerically sound. Promptness is a generous wall-clock bound, not a complexity proof.",
   design="5/C09"),
 "C17": dict(
   technique="TLA+ PathInterp + Split action (state reconstructed from stored segments) model-checked by TLC (invariant Reconstruct, action property SplitInvisible); every cut history replayed through +, +=, parse, segment+str, Path+Path, Path+Shape",
   text="TLC proves on the bounded model that the interpreter state is a function of the stored segments (Reconstruct) so a split at any command boundary is invisible, and enumerates every behaviour x every set of cut positions; each is executed on the real Path by every append operator and compared with the specification's unsplit segments.",
   note="Trusted: TLC, PathInterp.tla, projection code. Path+Shape compares the appended tail with abs(Path(shape)) (C06 owns the decomposition); operands carrying a transform of their own are included.",
   design="5/C17"),
 "C16": dict(
   technique="TLA+ geometry abstraction PathOps (sub-path rule, Mirror, MirrorSub, integer affine maps) model-checked by TLC (Involution, ClosedStays, OnlyThatSub, NoPointLost); every shape x operation history replayed on real Path objects; plus TLC trace validation (Trace_C16/PathEdit) of recorded edit histories of 8-40 operations",
   text="Binding B: a real Path is driven through seeded random histories of builder calls, reverse(), subpath(i).reverse() and lazily applied or reified affine maps; the integer geometry logged after every operation is recomputed step by step by TLC with PathOps/PathEdit (closed sub-paths as cycles), with a corruption self-test. Binding A: TLC enumerates every path shape of <= MaxSegs segments over M L Q C A Z (incl. zero-length closes, sub-paths without their own move, fragments) and every history of reverse / subpath-reverse / integer affine map up to MaxOps, carrying the expected geometry; the real path built from segment objects is driven through the same history and its projected geometry compared (closed sub-paths up to cyclic rotation). Shapes include quarter ellipses between lattice points (end points on the axes); every well-formed shape is also built by parsing its relative path-data spelling.",
   note="Trusted: TLC, PathOps.tla, the ~40-line Python projection of a real Path onto the abstraction. Arcs compared through the library's Arc constructor AND with the SVG end-point parameterisation written out in the harness. Two known-finding classes (Path.reverse() over paths whose sub-paths lack their own move, view reversal next to a move-less sub-path) are reported as KNOWN-FINDING; the well-formed class and view reversal of leading fragments are fully guarded.",
   design="5/C16"),
 "C07": dict(
   technique="TLA+ writer spec PathWrite with the law Interp(Write(p,relative,smooth)) = p model-checked by TLC over PathInterp behaviours (plus adversarial stale-smooth cases and an arc family); each state written by the real d()/str()/Subpath.d() in 9 option pairs, re-parsed and compared with the spec's segments",
   text="TLC checks the round-trip law on the writer/interpreter design for every behaviour of the bounded model and supplies the cases: behaviours with as-parsed relative/smooth flags, curves that look smooth w.r.t. a no-longer-adjacent curve, every lattice chord x radii (too small / large) x rotation x flags, object-built shapes with sub-paths lacking their own move. The real library writes each in all nine (relative, smooth) modes and in seeded decimal units, re-parses, and must reproduce kinds, count and geometry to 12 significant digits (arc tolerance scaled by the F.6.6 conditioning). Also long random conforming data (the generator of C01's TLC-validated traces) through all nine option pairs, every behaviour with its smooth joints made almost smooth (3e-8 off), and consecutive points 1e-5..1e-14 apart (exponent-form offsets in relative output).",
   note="Trusted: TLC, PathWrite.tla/PathInterp.tla, unit-equivariance of interpretation, the comparator (~60 lines, incl. F.6.6 Lambda for the arc tolerance). Known finding: 6-digit '%G' radii (pinned by test_svg_example14). Arcs with |sweep| > tau are not written by the library and are not generated.",
   design="5/C07"),
 "C04": dict(
   technique="TLA+ TransformList/Affine over exact rationals (Pythagorean rotations, rational tangents) model-checked by TLC; every list and every Matrix operation history replayed into Matrix(string)/pre_/post_/~/*",
   text="TLC enumerates every transform list of <= 3 function instances (all 11 SVG/CSS functions, optional arguments present/omitted, centred rotation) with its exact denotation, and every history of pre_/post_ operations (incl. centred scale/skew), pre_cat/post_cat, left/right multiplication, inversion and reset on a mutable matrix; ListIsDenotation, InverseTwoSided, IdNeutral and PointApplication are invariants of the spec. Each list is spelled canonically and twice with seeded letter case (names and units), separators, angle units (deg/grad/rad/turn/unitless) and length units, parsed by the real Matrix and compared entry by entry and through Point * Matrix.",
   note="Trusted: TLC, Rat/Affine/TransformList.tla, spelling code; angles with irrational cos/sin and mm/cm lengths (C12) are not generated; lists longer than 3 only in the thorough alphabet. Known finding: physical-unit translate inside a multi-function list raises ValueError.",
   design="5/C04"),
 "C18": dict(
   technique="TLA+ frame-condition model Alias (kinds x derivations x mutation histories, action property Independent) enumerated by TLC; each history executed on real objects with deep structural snapshots per step, plus the heap invariant NoSharedMutable evaluated on the real object graph with witness mutations",
   text="TLC enumerates 25 object kinds x every applicable derivation (copy, * M, abs, Path(x), ~, @, +) x every history of <= MaxMut public mutations applied to either side; the spec's version counters say which side may change. The harness replays each history and compares deep snapshots of the untouched side after every step; for the empty history it computes the set of mutable objects reachable from both source and result and confirms each by writing it through the result.",
   note="Trusted: TLC, Alias.tla's applicability tables, the snapshot/reachability walker (~80 lines; caches _length/_lengths/n excluded). The mutation alphabet is finite (listed in Alias.tla); sharing outside it is still caught by the heap check when a witness mutation exists. Image has no pixel payload (PIL absent).",
   design="5/C18"),
 "C12": dict(
   technique="TLA+ CssLength over exact rationals; TLC enumerates every (amount, unit) x context cell and every ordered pair of lengths with all binary operations evaluated in two resolving contexts; each cell replayed into Length",
   text="Exhaustive over the 14 units x amount table x 480 contexts for value()/to_mm/to_cm/to_inch (resolved value or 'stays symbolic') and over all ordered unit pairs for + - += / < <= > >= == != ; expected values come from the CSS ratios written once in TLA+ (Cycle, ContextFree, Reflexive are invariants of the spec). A result returned for an incommensurable pair must be correct in both contexts, so guessing is detected while ValueError/symbolic results are accepted.",
   note="Trusted: TLC, Rat.tla, CssLength.tla, amount spelling code; tolerance 1e-9 relative. Known findings: the 6-digit mm/cm constants (pinned by test_length.py) and the ties they break.",
   design="5/C12"),
 "C13": dict(
   technique="TLA+ Color/ColorTable (keyword table, hex digit arithmetic, rgb/percent clamping, CSS3 HSL algorithm and its inverse in exact rationals) enumerated by TLC; every spelling and every accessor write history replayed into Color",
   text="Exhaustive: all 147 keywords (4 letter-case variants, plus none/transparent), every 3- and 4-digit hex string, 6-/8-digit hex on a byte grid, rgb()/rgba() with numbers and percentages (out-of-range, fractional, negative, optional alpha), hsl()/hsla() with hues beyond a turn; each with RGBA from the spec, and the packed/hex accessors cross-checked on every parsed colour with Color(c.hex) == c. Accessor machine: histories of channel/opacity/packed/hex/HSL writes with the expected colour (SetterIsolation is an action property of the spec), HSL reads compared with the spec's ToHsl.",
   note="Trusted: TLC, Color.tla, the keyword table typed once (it agrees with the library on 146/147 entries; the 147th was the aliceblue defect). Real-valued channels may round either way; HSL channels +-1 LSB; hue units (deg/turn) in hsl() are CSS Color 4 and not demanded; alpha after the 24-bit rgb/bgr setters is unspecified.",
   design="5/C13"),
 "C11": dict(
   technique="TLA+ Viewport (the eight steps of SVG 2 section 8.2 in exact rationals; invariant HenceHolds = inside/covers/touches/aligned) enumerated by TLC; every cell replayed through Viewbox.viewbox_transform, Viewbox.transform, nested and root <svg> parsing",
   text="Exhaustive over the 10 align values x {absent, meet, slice} crossed with element and viewBox sizes in both aspect directions and origins (fractional, negative); zero-sized viewBoxes must disable rendering, incomplete ones give the identity. The 'hence' half of the property is model-checked on the specification; the real library must produce the spec's (sx, sy, tx, ty) by every route, and a viewBox-filling rect must land on the spec's image rectangle; size-supply routes (units, percentages, caller width/height as numbers or lengths, default to the viewBox) are rotated by seed; an ancestor's preserveAspectRatio must not leak into a nested svg.",
   note="Trusted: TLC, Rat.tla, Viewport.tla, XML assembly in the harness. Quick tier: 4 sizes per dimension; thorough: 10 element sizes x 8 viewBox sizes over six orders of magnitude.",
   design="5/C11"),
 "C02": dict(
   technique="TLA+ Seg/Affine over exact rationals (de Casteljau points, arcs as centre + conjugate semi-diameters + parameter interval); TLC enumerates segments x map histories with invariants Compose/EndpointsMap/PointsMap; each replayed through 9 API forms and compared point by point",
   text="TLC enumerates the segment table (lines, quadratic/cubic Beziers incl. zero-length / coincident / collinear controls, circular and elliptical arcs with several rotations, extents, directions) x every sequence of <= 2 matrices from the class table (translation, rotations, reflections, uniform/anisotropic scales, shears, rotated anisotropic, ill-conditioned, general); the spec's image of every defining point and of the arc frame is the oracle at 9 parameters t. Forms: seg*M, seg*=M, seg*(A*B), seg*'matrix()', abs(path*M), path*=M+reify, subpath*=M, incrementally built and joined paths reified in place; plus every shape of MC_C06 x matrix (decomposition of shape*M = M applied to the untransformed decomposition); every line case also as a zero-radius and as a zero-length arc multiplied in place.",
   note="Trusted: TLC, Rat/Affine/Seg.tla, the on_param comparator (c + u cos th + v sin th in floats from exact data). Coordinates up to 1e3; tolerance 1e-9 x magnitude.",
   design="5/C02"),
 "C05": dict(
   technique="TLA+ ArcF6 ('construct from the answer': ellipse + two parameter angles with rational cos/sin -> end points and the F.6.5 choice among the four candidate arcs) enumerated by TLC with invariants OnExpectedEllipse/StartAngleRight/EndAngleRight/LargeIffFlag; replayed through the Arc constructor and the path parser",
   text="Exhaustive over centres x radii x rotations (multiples of 90, Pythagorean, beyond +-360) x ordered pairs of 12 parameter angles x 4 flag pairs; radii too small by 2/10/1000 at an exact half turn (F.6.6), negative radii, zero radii (line: points, length, bbox), coincident end points. The real arc must start/end exactly at the points, have the expected centre and signed extent, pass 9 on_param points and report rx/ry/rotation describing the same ellipse.",
   note="Trusted: TLC, ArcF6.tla, the on_param / implicit-ellipse comparators. Tolerance 1e-9 x size, 1e-6 where the centre is a square root of an input rounding error (exact half turns). Radius-to-chord ratios up to 1e3 only through the scaled family. Every third case is repeated in another unit of length (1/4000 .. 1e5).",
   design="5/C05"),
 "C06": dict(
   technique="TLA+ Shapes (SVG 2 ch.10 equivalent paths, corner-radius auto/clamp table; invariants Connected, RadiiInRange) + PathOps geometry abstraction enumerated by TLC over shapes x transform classes; each built by 3 routes and decomposed 6 ways",
   text="Every cell of the rect radius table (given/omitted/zero/over-large/percent for rx and ry) x sizes incl. zero, circle, ellipse, line, polyline/polygon with 0..6 points incl. repeats, x 9-14 transforms of every class; the spec's equivalent path (as start point + ordered edges) is the oracle for segments(), Path(shape), Path(shape.d()), abs(shape), reify() and the untransformed decomposition: straight edges exact, curved edges on the mapped ellipse inside the positive quarter; laws: shape == Path(shape) == Path(shape.d()), equal bbox and lengths in both forms.",
   note="Trusted: TLC, Shapes.tla/PathOps.tla, the comparator. Exact == with Path(shape.d()) is only demanded when every number survives d()'s number format (12 digits, 6 for arc radii - the C07 finding).",
   design="5/C06"),
 "C08": dict(
   technique="TLA+ BBox: exact integer de Casteljau sampling with a second-derivative bracket for every 1-D Bezier control tuple, arc sides decided by rational sign tests with exact squared half extents, container union / stroke growth in rationals; enumerated by TLC and compared with bbox()",
   text="Exhaustive over all quadratic and cubic 1-D control tuples on 0..V (V=4 quick, 6 thorough) on either axis: any correct side must lie in [sample min - eps, sample min] (contains every sample, touched within eps <= 1.1e-3); lattice arcs (rotations x radii x start angles x extents x both directions, beyond a full turn) with each side equal to an end point or to centre +- sqrt(exact square); shapes, sub-paths, groups and nested groups x stroke painted/none/unset x widths x scales x transformed x with_stroke against the spec's union/grow.",
   note="Trusted: TLC, BBox.tla, sqrt in the comparator. Tightness finer than eps for Beziers with irrational extrema is not decided. Zero-extent arcs on a real ellipse and use / use-of-group containers are in the tables.",
   design="5/C08"),
 "C19": dict(
   technique="TLA+ ArcApprox: structural conversion contract on abstract paths (Connected, CountRight, EndsKept invariants) + concrete arc table enumerated by TLC; realised through as_cubic_curves/as_quad_curves/approximate_arcs_with_* and measured with the distance-to-ellipse comparator",
   text="27 abstract paths (line / arc / zero-extent arc at 3 positions) x slice counts x 4 APIs: chain ends exactly at the arc's ends, joins exact, neighbours untouched, path connected, zero-extent arcs vanish; arc table (radii ratio 1..100, rotations, start angles, extents 0.02 rad .. exactly one turn .. 450 degrees, both directions) x position in a path x {default, 2x, 4x, n=1, error=0.02} x {cubic, quadratic}: joints on the ellipse, deviation <= 1e-3 / 1e-2 x larger radius at both defaults, non-increasing for finer subdivision; paths that begin with the arc (no move), open and closed.",
   note="Trusted: TLC, ArcApprox.tla, the Newton distance-to-ellipse comparator; the deviation is sampled at 13 (quick) or 33 (thorough) points per curve, not bounded analytically.",
   design="5/C19"),
 "C15": dict(
   technique="TLA+ ArcLen (rational total variation of collinear Beziers, Pythagorean polylines, quarter-turn circles as multiples of pi, Walk(t) by cumulative length fractions, query/edit history machine) enumerated by TLC; replayed into length()/point(); invariance laws evaluated on MC_C02's segment table",
   text="Exhaustive over every quadratic/cubic 1-D control tuple on 0..V with rational critical points along (1,0) and (3,4) (cusps, zero length, coincident controls) x 8 maps (isometries, scalings) x reversal x error settings 1e-4/1e-6/1e-9; circles of 1..4 quarter turns; polyline words with moves walked at t = j/8 (also as Polyline shapes); every history of <= MaxOps queries and edits (point(t) must be a function of the current segments); for all segments incl. generic curves: length unchanged by rotation/reflection/translation/reversal, scaled by |s|, chord <= length <= control polygon, path length = sum; and length(error=1e-4/1e-6/1e-9) against the defining integral of the speed evaluated by quadrature from the spec's exact segment data. Also at coordinate magnitudes 1e5, 12345 and 1e-3, point walks of round shapes, scale-and-reify and reverse events in the history machine, perimeters of eccentric ellipse shapes against the integral, a fine request after a coarse one on the same path, and t next to 0, 1 and every corner of seeded polylines with irrational segment lengths.",
   note="Trusted: TLC, ArcLen.tla, Rat.tla, and for generic curves a 20-line Gauss-Legendre quadrature of the spec's definition (a numeric comparator, not a TLC verdict; own error estimate <= 1e-11). Known findings: collinear cubics with a cusp ignore the requested error; generic cubics / non-circular arcs accumulate per-piece errors (~0.15 L (e/L)^(2/3)).",
   design="5/C15"),
 "C03": dict(
   technique="TLA+ DocCore (document walker as a fold of element tokens over inherited contexts: CTM, nearest viewport, display, use expansion) with Shapes/Viewport/PathOps; TLC enumerates every token prefix x caller configuration; each document serialised, parsed with reify True/False and compared shape by shape",
   text="Every token prefix of <= MaxTok elements over the vocabulary (3 root svg variants incl. viewBox/preserveAspectRatio/own transform, g with transforms, nested svg with and without viewBox, defs, rect/circle/line/path/... with absolute, unit, percentage and omitted lengths and own transforms, use with x/y incl. use of a group, forward, chained and dangling references, display:none) x caller width/height/transform; the spec's rendered list (kind, user-space geometry, CTM) is the oracle for count, order, class and absolute geometry of the shapes the real parser returns, identically with and without reification. Beyond the exhaustive bound: TLC -simulate behaviours of 10 tokens, and seeded generated documents (varied units, percentages, viewBoxes, alignments, nesting; harness/docgen.py) on which TLC evaluates DocCore!RenderDoc as the oracle.",
   note="Trusted: TLC, DocCore/Shapes/Viewport/PathOps/Affine.tla, XML serialisation (docutil.py), the c06 geometry comparator. Reference cycles are excluded here (C10). rx/ry percentages, text/image/clipPath/pattern/symbol are outside the vocabulary.",
   design="5/C03"),
 "C14": dict(
   technique="TLA+ DocPaint (CSS cascade: inline > rules by specificity then order > presentation attribute; inheritance; currentColor; opacity) plugged into DocCore; TLC enumerates source subsets, rule orders, chains, use, currentColor, opacity cases; each parsed and its fill/stroke/stroke_width compared",
   text="Exhaustive: 3 properties x all 128 subsets of the 7 sources x 2 rule orders on one element; 4^3 x 2^3 chains of depth 3 x 5 ancestor transforms (incl. rotation, negative determinant); use of a styled definition (own > use > ancestor); currentColor x where color comes from x caller colour; fill-/stroke-opacity by attribute / inline / inheritance. Fill and stroke are compared as RGBA (alpha from the opacity), stroke_width as the declared width and the effective width sw * sqrt|det CTM|. Also vector-effect (non-scaling stroke), display as a cascaded property, opacity 0, zero stroke width, several rules for one selector, and generated paint documents (rect, circle, ellipse, line, polyline, polygon under scales, reflections, shears) with random style sheets - including type selectors that are substrings of other tag names - whose cascade TLC evaluates.",
   note="Trusted: TLC, DocPaint.tla, style-sheet text generation. Descendant/attribute selectors, !important and a style element placed after the elements it styles are not modelled. A transform that cannot be reified stays on the shape with the unscaled width: the effective width is what is compared then.",
   design="5/C14"),
 "C10": dict(
   technique="TLA+ DocFault over DocCore (expected = rendering of the document with the faulty elements removed; invariant RemovedIsBalanced) enumerated by TLC over documents x fault placements; each faulty document parsed in the default error mode and the shapes outside the faulty elements compared",
   text="Every document of <= 3 distinct id-carrying elements below the root (g, nested svg, defs, rect, circle, path, polyline, image, use of group/shape) x every applicable fault on every element including the root: unclosed / unknown / under-supplied / unit-bearing transform functions, bad colours, garbage style text, garbage and negative lengths, truncated / short-arc / move-less / garbage path data, odd and garbage point lists, garbage and short viewBox, garbage preserveAspectRatio, bad image data, dangling, self and ancestor use references (two simultaneous faults in the thorough tier). SVG.parse must return within the time limit without any exception, and every shape outside the faulty elements' subtrees must be exactly what the fault-free remainder renders (ids, order, geometry). Also hand-made reference cycles of two and three ids (DocFault!CyclicUses), TLC -simulate documents of 6-9 tokens with up to 3 faults, and generated documents with 1-3 random faults whose reference rendering TLC evaluates.",
   note="Trusted: TLC, DocFault/DocCore.tla, the fault text table, XML serialisation. Faults in style-sheet text and ill-formed XML are excluded by the property. Shapes defined inside a faulty container but rendered through a use outside it are left open.",
   design="5/C10"),
 "C20": dict(
   technique="DocCore/DocPaint documents (TLC-enumerated, WriterLaw invariant: ctm * inverse(viewport) re-rendered inside the viewport is ctm) written by the real writer in every mode, checked for well-formedness, re-parsed and compared with the source tree; constructor-built trees from the spec's rendered shapes; second generation compared with the first",
   text="Every 17th (quick) / 3rd (thorough) rendering geometry document of MC_C03 with its caller configuration and every 3rd paint document of MC_C14, parsed with reify True/False, written with string_xml, write_xml .svg and .svgz, read back (ElementTree well-formedness, then SVG.parse with reify True/False): same shape classes in the same order, sampled absolute geometry within the six-decimal matrix precision, same fill/stroke RGBA, effective stroke width and ids; write(parse(write(x))) renders like write(x). Built trees: Path shapes with full transforms (both determinant signs), paints incl. fully transparent colours, with and without viewBox. Also generated documents (harness/docgen.py) rendered by TLC, taken through the same write / re-parse / second generation cycle.",
   note="Trusted: TLC, DocCore family, the sampling comparator (5 points per segment). The reference is the source tree's own rendering (its agreement with the spec is C03/C14). text/image payloads and pretty-printing whitespace are not compared.",
   design="5/C20"),
}
NOT_BUILT = "check not built yet (planned: DESIGN.md section 5)"

def main():
    checks = []
    for pid in ALL:
        if pid not in CHECKS:
            continue
        c = CHECKS[pid]
        checks.append({
            "property_id": pid,
            "quick_cmd": "./check %s --tier quick" % pid,
            "thorough_cmd": "./check %s --tier thorough" % pid,
            "evidence_file": "/verif/evidence/%s.json" % pid,
            "replay_cmd_template": "./check %s --replay {path}" % pid,
            "engine": "tlc-replay",
            "level_claimed": {"category": c.get("category", "model_checking"), "text": c["text"], "design_ref": c["design"]},
            "level_note": c["note"],
            "technique": c["technique"],
        })
    na = [{"property_id": p, "reason": NA.get(p, NOT_BUILT)} for p in ALL if p not in CHECKS]
    m = {
        "version": 1,
        "setup_cmd": "./check --setup",
        "hooks": {"guard": "SVGELEMENTS_VERIF", "enable": "no source hooks are needed or installed; the guard name is reserved and unused (checks import /repo's working tree directly)",
                  "baseline_off_cmd": "/verif/tools/baseline.py /repo", "source_commits": [], "add_only": True},
        "engines": [{"name": "tlc-replay", "path": "/verif/harness/engine.py", "serves_properties": sorted(CHECKS),
                     "kind_free_text": "TLC 1.8 explicit-state model checking of TLA+ specs in /verif/spec; state dumps replayed into the real library (binding A) and recorded traces validated by TLC trace specs (binding B)"}],
        "checks": checks,
        "notes": "All checks: exit 0 held / 1 VIOLATION / 2 machinery failure. Known findings: /verif/known_findings.json. See DESIGN.md.",
        "not_applicable": na,
    }
    with open(os.path.join(HERE, "MANIFEST.json"), "w") as f:
        json.dump(m, f, indent=1)
    print("MANIFEST.json: %d checks, %d not claimed" % (len(checks), len(na)))

NA = {}
if __name__ == "__main__":
    main()
