#!/usr/bin/env python3
"""Prepare a round of seeded changes: one scratch worktree of /repo's HEAD and one prompt per property.
usage: tools/mk_round.py <root, e.g. /tmp/wt5> <plan file> [C01 C02 ...]
The prompt gives a sub-agent the property text only (nothing from /verif) and its own worktree; the plan file holds the
three "change K is ..." bullet lines of the round.  The worktrees are removed again with
`git -C /repo worktree remove --force <root>/<id>` once the round is evaluated."""
import json
import os
import subprocess
import sys

VERIF = os.path.dirname(os.path.dirname(os.path.abspath(__file__)))

TEMPLATE = """You are helping to evaluate a verification tool for the Python library svgelements (a single-file SVG parser and geometry library). Your job is to play the role of a developer who introduces a realistic, subtle regression.

Your scratch git worktree of the library is at {wt} (the library source is {wt}/svgelements/svgelements.py, tests are in {wt}/test). Work ONLY inside that directory and inside the output directory {out}. Do not look at or touch /repo, /verif or any other directory. Use /venv/bin/python (PYTHONPATH={wt} so that `import svgelements` picks up the worktree copy: check svgelements.__file__).

Here is a semantic property the library is supposed to satisfy:

---
Property {id}: {title}

Statement: {statement}

Quantified over: {quant}

Why the existing tests cannot settle it: {why}

Where the mechanism lives (line numbers are approximate, the file has moved a little): {mech}

---

Produce THREE independent code changes (each applies on its own to the clean worktree) to svgelements/svgelements.py, each of which
  1. breaks the property above for some inputs (a genuine semantic violation of the statement as written, not merely of an implementation detail),
  2. still imports, and still passes the existing test suite exactly as the clean tree does: `cd {wt} && /venv/bin/python -m pytest -q -p no:cacheprovider --timeout=900` reports "21 failed, 404 passed" on the clean tree (the 21 need numpy/scipy/PIL, which are not installed); the criterion is 404 passed and exactly the same 21 failing test ids. Some tests are randomised: run the suite twice with the change applied,
  3. is realistic: the kind of slip a maintainer could make - not a deliberate backdoor keyed on magic values, and not a change that breaks everything,
  4. needs something specific to manifest, but the triggering inputs must be inside the range the property quantifies over,
  5. uses a different mechanism / code location from your other two changes, and follows this plan:
{plan}

For each change K in 1, 2, 3 write into {out}:
  - patchK.diff : a unified diff (`git diff` output, applicable with `git apply` from the root of a clean worktree),
  - demoK.py    : a small stand-alone script that demonstrates the violation through the public API: it must exit with status 0 on the clean tree and status 1 (after printing what went wrong) with patchK applied, when run as `PYTHONPATH=<tree> /venv/bin/python demoK.py`,
  - notesK.md   : what was changed, why it violates the property as stated, a section headed exactly "## What is needed for it to manifest", and the pytest summary lines you observed with the change applied.
After writing each patch, restore the worktree (`git checkout -- .`) so the next one starts clean, and at the end leave the worktree clean. Verify each patch yourself: apply it to the clean tree, run the demo (exit 1), run the full test suite, restore, run the demo again (exit 0).

If a candidate fails the test suite, choose another one; do not edit the tests. If, while exploring, you notice that the CLEAN tree already violates the property for some input, mention it in your final summary (with the input), but do not use it in a demo. Report at the end a short summary of the three changes (one line each).
"""


def main():
    root, planfile = sys.argv[1], sys.argv[2]
    want = sys.argv[3:]
    plan = open(planfile).read().rstrip("\n")
    head = subprocess.check_output(["git", "-C", "/repo", "rev-parse", "--short=10", "HEAD"]).decode().strip()
    os.makedirs(root, exist_ok=True)
    for line in open(os.path.join(VERIF, "properties.jsonl")):
        p = json.loads(line)
        if want and p["id"] not in want:
            continue
        wt, out = os.path.join(root, p["id"]), os.path.join(root, "out-" + p["id"])
        if not os.path.isdir(wt):
            subprocess.check_call(["git", "-C", "/repo", "worktree", "add", "-q", "--detach", wt, head])
        os.makedirs(out, exist_ok=True)
        open(os.path.join(out, "BASE"), "w").write(head)
        mech = "; ".join("%s (%s)" % (m["name"], m["where"]) for m in p["anchors"]["mechanism"])
        open(os.path.join(root, "prompt-%s.txt" % p["id"]), "w").write(TEMPLATE.format(
            wt=wt, out=out, id=p["id"], title=p["title"], statement=p["statement"], quant=p["quantifier"]["text"],
            why=p["why_tests_cant"], mech=mech, plan=plan))
        print("prepared", p["id"], wt)


if __name__ == "__main__":
    main()
