#!/venv/bin/python
"""Run the repository's pinned test-suite (guard off) and compare with /root/.vp/BASELINE.json.
exit 0 iff every stable_pass test passes."""
import json, os, subprocess, sys, xml.etree.ElementTree as ET
repo = sys.argv[1] if len(sys.argv) > 1 else "/repo"
out = os.path.join(os.path.dirname(os.path.dirname(os.path.abspath(__file__))), ".work", "baseline-%d.xml" % os.getpid())
os.makedirs(os.path.dirname(out), exist_ok=True)
env = dict(os.environ)
env.pop("SVGELEMENTS_VERIF", None)
subprocess.run(["/venv/bin/python", "-m", "pytest", "-ra", "-q", "-p", "no:cacheprovider", "--timeout=900",
                "--continue-on-collection-errors", "--junitxml=" + out], cwd=repo, env=env,
               stdout=subprocess.DEVNULL, stderr=subprocess.DEVNULL)
base = json.load(open("/root/.vp/BASELINE.json"))
passed = set()
for tc in ET.parse(out).getroot().iter("testcase"):
    if not any(c.tag in ("failure", "error", "skipped") for c in tc):
        passed.add("%s::%s" % (tc.get("classname"), tc.get("name")))
os.remove(out)
missing = [t for t in base["stable_pass"] if t not in passed]
print("baseline: %d/%d stable tests pass; %d passed in total" % (len(base["stable_pass"]) - len(missing), len(base["stable_pass"]), len(passed)))
for t in missing:
    print("  NOT PASSING:", t)
sys.exit(1 if missing else 0)
