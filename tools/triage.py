#!/venv/bin/python
"""ad-hoc: run a property's generator + check in-process and group disagreements"""
import sys, os, json, collections
sys.path.insert(0, '/verif'); os.chdir('/verif')
from harness import engine
import importlib
prop = sys.argv[1]
mod = importlib.import_module('harness.' + prop.lower())
