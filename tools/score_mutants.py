#!/venv/bin/python
"""Run the quick check of each seeded change's property against a scratch copy of /repo with the change
applied (tools/try_mutant.sh; the committed evidence is not touched) and record the outcome in
seeded/<id>-<k>/meta.json ("detected_by").  usage: tools/score_mutants.py [C07-1 ...]"""
import json
import os
import re
import subprocess
import sys

VERIF = os.path.dirname(os.path.dirname(os.path.abspath(__file__)))
SEEDED = os.path.join(VERIF, "seeded")


def first_para(path):
    """The sub-agent's own "What is needed for it to manifest" section."""
    try:
        txt = open(path).read()
    except OSError:
        return None
    m = re.search(r"^#+ *What is needed for it to manifest[^\n]*\n(.*?)(?=^#+ |\Z)", txt, re.M | re.S)
    if not m:
        return None
    return " ".join(m.group(1).split())[:900]


def main():
    names = sys.argv[1:] or sorted(os.listdir(SEEDED))
    for name in names:
        d = os.path.join(SEEDED, name)
        meta_p = os.path.join(d, "meta.json")
        if not os.path.isfile(meta_p):
            continue
        meta = json.load(open(meta_p))
        prop = meta["property"]
        patch = os.path.join(d, "patch-adapted.diff")
        adapted = os.path.isfile(patch)
        if not adapted:
            patch = os.path.join(d, "patch.diff")
        env = dict(os.environ, LINES_OUT="60")
        r = subprocess.run([os.path.join(VERIF, "tools", "try_mutant.sh"), patch, prop, "quick"],
                           capture_output=True, text=True, env=env)
        out = r.stdout + r.stderr
        det = {"check": "./check %s --tier quick" % prop,
               "patch_used": os.path.basename(patch) + (" (original patch.diff re-based onto the repaired tree)" if adapted else "")}
        if "PATCH DOES NOT APPLY" in out:
            prev = meta.get("detected_by")
            if isinstance(prev, dict) and prev.get("result") in ("detected", "equivalent on the repaired tree"):
                # the tree was repaired at these lines after the change was scored: the last result stands, marked as such
                det = dict(prev)
                det["stale"] = "patch no longer applies to the current tree (a later fix: commit touched these lines); result of the last scoring kept"
            else:
                det["result"] = "patch does not apply to the current (repaired) tree"
        else:
            m = re.search(r"(\d+) disagreement\(s\) in total, by clause: (\{.*\})", out)
            nviol = len(re.findall(r"^VIOLATION property=", out, re.M))
            det["violation_lines"] = nviol
            if m:
                det["result"] = "detected"
                det["disagreements"] = int(m.group(1))
                det["by_clause"] = eval(m.group(2), {"__builtins__": {}})
            elif nviol:
                det["result"] = "detected"
            elif re.search(r"violations=0", out):
                det["result"] = "NOT detected (check exits 0)"
            else:
                det["result"] = "machinery failure"
                det["tail"] = out[-800:]
            s = re.findall(r"^C\d\d quick: .*$", out, re.M)
            if s:
                det["summary"] = s[-1]
        meta["detected_by"] = det
        need = first_para(os.path.join(d, "notes.md"))
        if need:
            meta["needs_to_manifest"] = need
        json.dump(meta, open(meta_p, "w"), indent=1)
        print(name, det["result"], det.get("by_clause", ""))


if __name__ == "__main__":
    main()
