"""C05 - endpoint-form arcs are the arcs of SVG implementation note F.6.

MC_C05 (ArcF6.tla, exact rationals) constructs every case from the answer: ellipse, two parameter
angles, flags -> end points and the expected (centre, start angle, extent, direction).  The real
Arc (constructor and path parser) must start/end exactly at the points, have that centre and sweep,
and its points must be the affine image of the circular arc (on_param comparator)."""
import math
from fractions import Fraction
from . import engine

svg = None


def worker_init():
    global svg
    svg = engine.import_lib()


def rat(q):
    return Fraction(q[0], q[1])


def fl(q):
    return float(rat(q))


def ang(a):
    return math.atan2(fl(a[1]), fl(a[0]))


def rot_degrees(ph):
    return math.degrees(math.atan2(fl(ph[1]), fl(ph[0]))) + 360.0 * ph[2]


def on_param(c, rx, ry, cphi, sphi, th0, signed, t):
    th = th0 + t * signed
    u, v = rx * math.cos(th), ry * math.sin(th)
    return c[0] + u * cphi - v * sphi, c[1] + u * sphi + v * cphi


def implicit(cx, cy, rx, ry, rot, x, y):
    c, s = math.cos(rot), math.sin(rot)
    dx, dy = x - cx, y - cy
    xr, yr = dx * c + dy * s, -dx * s + dy * c
    return xr * xr / (rx * rx) + yr * yr / (ry * ry)


def check_arc(a, what, case):
    kind, args, exp = case["kind"], case["args"], case["exp"]
    start, rx_in, ry_in, ph, fa, fs, end = args
    sx, sy, ex, ey = fl(start[0]), fl(start[1]), fl(end[0]), fl(end[1])
    dis = []
    if a.start is None or a.end is None or (a.start.x, a.start.y) != (sx, sy) or (a.end.x, a.end.y) != (ex, ey):
        dis.append({"clause": "Endpoints", "detail": "%s: start/end %r %r, given (%r,%r) (%r,%r)" % (what, a.start, a.end, sx, sy, ex, ey)})
    if kind in ("normal", "scaled", "negative"):
        (c, th0a, exta, dirn), rx, ry = exp
        c = (fl(c[0]), fl(c[1]))
        rx, ry = fl(rx), fl(ry)
        th0 = ang(th0a)
        ext = ang(exta) % (2 * math.pi)
        signed = dirn * ext
        cphi, sphi = fl(ph[0]), fl(ph[1])
        scale = max(rx, ry, 1e-300)
        # antipodal end points: the radii are exactly minimal, the centre is a square root of the rounding error of
        # the (rounded) input coordinates - the same conditioning as an F.6.6 rescaling
        loose = kind == "scaled" or abs(ext - math.pi) < 1e-12
        tol = (1e-6 if loose else 1e-9) * max(scale, abs(c[0]), abs(c[1]))
        if a.center is None or abs(a.center.x - c[0]) > tol or abs(a.center.y - c[1]) > tol:
            dis.append({"clause": "Centre", "detail": "%s: centre %r, F.6.5 gives %r" % (what, a.center, c)})
        half = abs(ext - math.pi) < 1e-12
        if (a.sweep > 0) != (fs == 1):
            dis.append({"clause": "SweepDirection", "detail": "%s: sweep %r but sweep-flag %d" % (what, a.sweep, fs)})
        elif not half and (abs(a.sweep) > math.pi) != (fa == 1):
            dis.append({"clause": "LargeArc", "detail": "%s: |sweep| %r but large-arc flag %d" % (what, abs(a.sweep), fa)})
        elif abs(a.sweep - signed) > (1e-6 if loose else 1e-9):
            dis.append({"clause": "Extent", "detail": "%s: sweep %r, F.6.5 gives %r" % (what, a.sweep, signed)})
        try:
            dl = a.delta
            if abs(math.radians(dl) - a.sweep) > 1e-9:
                dis.append({"clause": "Extent", "detail": "%s: delta (degrees) %r does not match the sweep %r" % (what, dl, a.sweep)})
        except Exception as e:
            dis.append({"clause": "Raises", "detail": "%s: delta raised %s" % (what, type(e).__name__)})
        if not dis:
            for i in range(9):
                t = i / 8.0
                p = a.point(t)
                w = on_param(c, rx, ry, cphi, sphi, th0, signed, t)
                if abs(p.x - w[0]) > tol or abs(p.y - w[1]) > tol:
                    dis.append({"clause": "Point", "detail": "%s: point(%s) = %r, expected %r" % (what, t, p, w)})
                    break
                # the reported radii / rotation describe the same ellipse
                try:
                    r = implicit(a.center.x, a.center.y, a.rx, a.ry, a.get_rotation().as_radians, w[0], w[1])
                    if abs(r - 1.0) > (1e-5 if loose else 1e-8):
                        dis.append({"clause": "ReportedEllipse", "detail": "%s: rx=%r ry=%r rotation=%r do not describe the ellipse (residual %r at t=%s)" % (
                            what, a.rx, a.ry, a.get_rotation(), r - 1.0, t)})
                        break
                except ZeroDivisionError:
                    dis.append({"clause": "ReportedEllipse", "detail": "%s: rx=%r ry=%r" % (what, a.rx, a.ry)})
                    break
    elif kind == "line":
        d = math.hypot(ex - sx, ey - sy)
        for t in (0.0, 0.25, 0.5, 0.75, 1.0):
            p = a.point(t)
            w = (sx + t * (ex - sx), sy + t * (ey - sy))
            if p is None or abs(p.x - w[0]) > 1e-9 * max(1, d) or abs(p.y - w[1]) > 1e-9 * max(1, d):
                dis.append({"clause": "ZeroRadius:Point", "detail": "%s: point(%s) = %r, the straight line gives %r" % (what, t, p, w)})
                break
        try:
            L = a.length()
            if abs(L - d) > 1e-9 * max(1, d):
                dis.append({"clause": "ZeroRadius:Length", "detail": "%s: length %r, the straight line has %r" % (what, L, d)})
        except Exception as e:
            dis.append({"clause": "ZeroRadius:Length", "detail": "%s: length() raised %s" % (what, type(e).__name__)})
        try:
            bb = a.bbox()
            w = (min(sx, ex), min(sy, ey), max(sx, ex), max(sy, ey))
            if bb is None or any(abs(g - v) > 1e-9 * max(1, d) for g, v in zip(bb, w)):
                dis.append({"clause": "ZeroRadius:BBox", "detail": "%s: bbox %r, the straight line has %r" % (what, bb, w)})
        except Exception as e:
            dis.append({"clause": "ZeroRadius:BBox", "detail": "%s: bbox() raised %s" % (what, type(e).__name__)})
    else:  # empty
        try:
            L = a.length()
            pts = [a.point(t) for t in (0.0, 0.5, 1.0)]
            if L != 0 or any(abs(p.x - sx) > 1e-12 or abs(p.y - sy) > 1e-12 for p in pts):
                dis.append({"clause": "Coincident", "detail": "%s: length %r, points %r (coincident end points draw nothing)" % (what, L, pts)})
            if list(a.as_cubic_curves()) or list(a.as_quad_curves()):
                dis.append({"clause": "Coincident", "detail": "%s: converts to curves although it draws nothing" % what})
        except Exception as e:
            dis.append({"clause": "Coincident", "detail": "%s raised %s" % (what, type(e).__name__)})
    return dis


def check_case(case):
    kind, args = case["kind"], case["args"]
    start, rx, ry, ph, fa, fs, end = args
    sx, sy, ex, ey = fl(start[0]), fl(start[1]), fl(end[0]), fl(end[1])
    rxf, ryf, rot = fl(rx), fl(ry), rot_degrees(ph)
    dis = []
    routes = []
    if True:
        routes.append(("Arc(%r, %r, %r, %r, %d, %d, %r)" % ((sx, sy), rxf, ryf, rot, fa, fs, (ex, ey)),
                       lambda: svg.Arc(svg.Point(sx, sy), rxf, ryf, rot, fa, fs, svg.Point(ex, ey))))
        routes.append(("Arc(%r, complex(%r, %r), %r, %d, %d, %r)" % ((sx, sy), rxf, ryf, rot, fa, fs, (ex, ey)),
                       lambda: svg.Arc(svg.Point(sx, sy), complex(rxf, ryf), rot, fa, fs, svg.Point(ex, ey))))
        routes.append(("Arc(start=%r, radius=complex(%r, %r), rotation=%r, arc_flag=%d, sweep_flag=%d, end=%r)" % ((sx, sy), rxf, ryf, rot, fa, fs, (ex, ey)),
                       lambda: svg.Arc(start=svg.Point(sx, sy), radius=complex(rxf, ryf), rotation=rot, arc_flag=fa, sweep_flag=fs, end=svg.Point(ex, ey))))
    d = "M %r,%r A %r %r %r %d %d %r,%r" % (sx, sy, rxf, ryf, rot, fa, fs, ex, ey)
    routes.append(("Path(%r)[1]" % d, lambda: svg.Path(d)[1]))
    drel = "M %r,%r a %r,%r,%r,%d,%d,%r,%r" % (sx, sy, rxf, ryf, rot, fa, fs, ex - sx, ey - sy)

    def builder_second_arc():
        # the builder call takes several arcs at once: this arc is the SECOND of one call, it starts where the first ends
        size = max(abs(sx), abs(sy), abs(ex), abs(ey), rxf, ryf, 1e-3)
        p = svg.Path()
        p.move(svg.Point(sx - 3 * size, sy + 2 * size))
        p.arc(4 * size, 4 * size, 0, 0, 1, svg.Point(sx, sy), rxf, ryf, rot, fa, fs, svg.Point(ex, ey))
        return p[2]
    routes.append(("Path.arc(first arc, %r %r %r %d %d %r)[second]" % (rxf, ryf, rot, fa, fs, (ex, ey)), builder_second_arc))
    for what, mk in routes:
        if mk is None:
            continue
        try:
            a = mk()
        except engine.CaseTimeout:
            raise
        except Exception as e:
            dis.append({"clause": "Raises", "detail": "%s raised %s: %s" % (what, type(e).__name__, str(e)[:60])})
            continue
        if not isinstance(a, svg.Arc):
            dis.append({"clause": "NotAnArc", "detail": "%s is %s" % (what, type(a).__name__)})
            continue
        for x in check_arc(a, what, case):
            x["route"] = "constructor" if what.startswith("Arc") else "path"
            dis.append(x)
    if kind == "normal" and rxf != ryf:
        # the same end points, radii and flags with the x-axis rotation a fraction of a degree off (a float that is not a
        # whole number): compared with the SVG F.6.5 conversion written out in the harness (pathutil.arc_point)
        from .pathutil import arc_point
        for off in (0.5, -0.75, 0.25):
            r2 = rot + off
            what = "Arc(%r, %r, %r, %r, %d, %d, %r)" % ((sx, sy), rxf, ryf, r2, fa, fs, (ex, ey))
            try:
                a = svg.Arc(svg.Point(sx, sy), rxf, ryf, r2, fa, fs, svg.Point(ex, ey))
                size = max(rxf, ryf, abs(ex - sx), abs(ey - sy))
                for t in (0.25, 0.5, 0.75):
                    q, w = a.point(t), arc_point(sx, sy, rxf, ryf, r2, fa, fs, ex, ey, t)
                    if abs(q.x - w[0]) > 1e-7 * size or abs(q.y - w[1]) > 1e-7 * size:
                        dis.append({"clause": "FractionalRotation", "route": "constructor", "detail": "%s: point(%s) = %r, the F.6.5 conversion gives %r" % (what, t, q, w)})
                        break
            except engine.CaseTimeout:
                raise
            except Exception as e:
                dis.append({"clause": "Raises", "detail": "%s raised %s: %s" % (what, type(e).__name__, str(e)[:60])})
    for x in dis:
        x["kind"] = kind
    return {"dis": dis, "nontrivial": kind in ("normal", "scaled", "negative"), "class": kind, "checked": ["Endpoints", "Centre", "Extent", "Point", "ReportedEllipse"]}


UNITS = [(1, 1000), (12345, 1), (100000, 1), (37, 100), (1, 64), (1, 4000)]      # radius 5 -> 1.25e-3: the small end of the range


def scaled(case, u):
    """The same arc in another unit of length (F.6 is equivariant under uniform scaling: points and radii scale, the
    rotation, the flags and the angles stay) - the property quantifies over coordinate magnitudes 1e-3..1e5."""
    un, ud = u

    def sq(q):
        return [q[0] * un, q[1] * ud]

    def sp(p):
        return [sq(p[0]), sq(p[1])]
    start, rx, ry, ph, fa, fs, end = case["args"]
    c = {"kind": case["kind"], "args": [sp(start), sq(rx), sq(ry), ph, fa, fs, sp(end)], "exp": case["exp"], "unit": "%d/%d" % u}
    if case["kind"] in ("normal", "scaled", "negative"):
        (cen, th0a, exta, dirn), erx, ery = case["exp"]
        c["exp"] = [[sp(cen), th0a, exta, dirn], sq(erx), sq(ery)]
    return c


def cases_from_dump(path, seed=0):
    n = 0
    for st in engine.read_dump(path):
        n += 1
        case = {"kind": st["kind"], "args": st["args"], "exp": st["exp"]}
        yield case
        if n % 3 == 0:
            yield scaled(case, UNITS[(n // 3 + seed) % len(UNITS)])


def run(tier, seed):
    run = engine.Run("C05", tier, seed)
    work = engine.workdir("C05")
    try:
        consts = {"Full": "FALSE" if tier == "quick" else "TRUE"}
        res = engine.run_tlc(work, "MC_C05", constants=consts, invariants=["OnExpectedEllipse", "StartAngleRight", "EndAngleRight", "LargeIffFlag"], timeout=3000)
        run.add_tlc(res, "ArcF6 cases, %s" % consts)
        n = 0
        bykind = {}
        for case, r in engine.replay("harness.c05", cases_from_dump(res["dump"], seed), chunk=200):
            run.record(case, r, key=str(case["args"]))
            bykind[case["kind"]] = bykind.get(case["kind"], 0) + 1
            if n % 2000 == 5:
                run.sample(case)
            n += 1
        run.extra["cases_by_kind"] = bykind
        run.extra["exhaustive"] = True
    finally:
        engine.cleanup(work)
    run.rule = ("cases = initial states of MC_C05: ellipses (centres x radii x rotations with rational cos/sin incl. multiples of 90 and beyond +-360) x "
                "ordered pairs of 12 parameter angles x 4 flag pairs; radii divided by 2/10/1000 at an exact half turn; negative radii; zero radii; "
                "coincident end points; each through the Arc constructor and the path parser")
    run.assumptions = ["comparators: on_param (affine image of the circular arc, evaluated in floats from the spec's rational cos/sin) and the implicit "
                       "ellipse equation; tolerance 1e-9 x size (1e-6 where F.6.6 rescaling makes the centre a square root of a rounding error)"]
    return run.finish()


def replay_case(case):
    worker_init()
    return check_case(case)
