"""C16 binding B: edit histories recorded from a real Path, validated by TLC against PathOps/PathEdit.

The driver performs a seeded random history of public operations on one Path object (builder calls,
reverse(), subpath(i).reverse(), affine maps applied lazily or reified) and logs after every
operation the PathOps geometry of abs(path) as integers.  Trace_C16.tla recomputes every step."""
import json
import math
import os
import random
from . import engine
from . import c16

svg = None
MATS = c16.MATS


def D(k):
    a, b = (k % 5) - 2, ((k // 5) % 7) - 3
    return (3, -4) if a == 0 and b == 0 else (a, b)


def ipt(q):
    if q is None:
        return None
    x, y = round(q.x), round(q.y)
    if abs(q.x - x) > 1e-6 or abs(q.y - y) > 1e-6:
        return None
    return [int(x), int(y)]


def edge_rec(g):
    """integer record of a drawn segment, or a string naming what is not representable"""
    k = type(g).__name__
    s, e = ipt(g.start), ipt(g.end)
    if s is None or e is None:
        return "endpoint of %r is not on the integer lattice" % (g,)
    if k in ("Line", "Close"):
        return ["L", s, [], [], e]
    if k == "QuadraticBezier":
        c = ipt(g.control)
        return ["Q", s, c, [], e] if c else "control of %r off lattice" % (g,)
    if k == "CubicBezier":
        c1, c2 = ipt(g.control1), ipt(g.control2)
        return ["C", s, c1, c2, e] if c1 and c2 else "control of %r off lattice" % (g,)
    if k == "Arc":
        rx, ry = g.rx, g.ry
        rot = g.get_rotation().as_degrees
        if rx > ry:
            rx, ry, rot = ry, rx, rot + 90.0
        irx, iry, irot = round(rx), round(ry), round(rot)
        if abs(rx - irx) > 1e-6 or abs(ry - iry) > 1e-6 or abs(rot - irot) > 1e-6:
            return "arc radii/rotation (%r, %r, %r) of %r are not the integers the history implies" % (rx, ry, rot, g)
        if abs(abs(g.sweep) - math.pi) < 1e-9:
            return "half-turn arc"
        return ["A", s, [int(irx), int(iry), int(irot) % 180], [1 if abs(g.sweep) > math.pi else 0, 1 if g.sweep > 0 else 0], e]
    return "unexpected segment %r" % (g,)


def project(path):
    geo = []
    for closed, fp, edges in c16.geometry(abs(path)):
        f = ipt(fp)
        if f is None:
            return "first point %r off lattice" % (fp,)
        es = []
        for g in edges:
            r = edge_rec(g)
            if isinstance(r, str):
                return r
            es.append(r)
        geo.append([bool(closed), f, es])
    return geo


def drive(rng, n):
    """returns (events, error) - error is a disagreement dict when the history cannot even be recorded"""
    p = svg.Path()
    events = []
    k = rng.randrange(35)
    scales = 0
    pending = False
    for step in range(n):
        last = p[-1] if len(p) else None
        nsub = p.count_subpaths() if len(p) else 0
        after_close = isinstance(last, svg.Close)
        r = rng.random()
        if len(p) == 0 or (after_close and r < 0.5):
            ev = {"op": "draw", "kind": "M", "k": k}
        elif r < 0.16:
            ev = {"op": "rev"}
        elif r < 0.30:
            ev = {"op": "revsub", "i": rng.randint(1, nsub)}
        elif r < 0.42:
            m = rng.choice([1, 2, 3] if scales < 3 else [1, 2])
            scales += m == 3
            ev = {"op": "mul", "k": m, "reify": rng.random() < 0.5}
        elif after_close:
            ev = {"op": "draw", "kind": "M", "k": k}
        else:
            ev = {"op": "draw", "kind": rng.choice("MLLQCAAZR"), "k": k}
        desc = dict(ev)
        try:
            if ev["op"] == "draw":
                if pending:          # builder calls address the untransformed coordinates: settle the map first
                    p.reify()
                    pending = False
                c = p.current_point
                kind = ev["kind"]

                def off(j):
                    d = D(j)
                    return svg.Point(c.x + d[0], c.y + d[1]) if c is not None else svg.Point(*d)
                if kind == "M":
                    p.move(off(k))
                elif kind == "L":
                    p.line(off(k))
                elif kind == "Q":
                    p.quad(off(k + 1), off(k))
                elif kind == "C":
                    p.cubic(off(k + 1), off(k + 2), off(k))
                elif kind == "A":
                    p.arc(20 + (k % 7), 30 + (k % 7), 15 * (k % 5), k % 2, (k // 2) % 2, off(k))
                elif kind == "Z":
                    p.closed()
                elif kind == "R":
                    p.line(svg.Point(p.z_point))
                k += 3
            elif ev["op"] == "rev":
                p.reverse()
            elif ev["op"] == "revsub":
                p.subpath(ev["i"] - 1).reverse()
            else:
                p *= svg.Matrix(*MATS[ev["k"]])
                if ev.pop("reify"):
                    p.reify()
                else:
                    pending = True
            geo = project(p)
        except Exception as e:
            return events, {"clause": "TraceRaises", "detail": "%s: %s at step %d (%s) after %s" % (
                type(e).__name__, str(e)[:80], step, desc, [x["op"] + str(x.get("kind", x.get("i", x.get("k", "")))) for x in events])}
        if isinstance(geo, str):
            return events, {"clause": "TraceProjection", "detail": "%s at step %d (%s), d=%s" % (geo, step, desc, p.d())}
        ev["geo"] = geo
        events.append(ev)
    return events, None


def brief(ev):
    return [x["op"] + ":" + str(x.get("kind", x.get("i", x.get("k", "")))) for x in ev]


def run_into(run, work, tier, seed):
    global svg
    c16.worker_init()          # one library module object for driver and projection
    svg = c16.svg
    rng = random.Random(seed * 104729 + 16)
    ntr = 400 if tier == "quick" else 6000
    traces = []
    ops = {}
    for t in range(ntr):
        ev, err = drive(rng, rng.randint(8, 40))
        if err:
            run.traces += 1
            run.violations.append({"case": {"history": brief(ev)}, "dis": err})
            continue
        traces.append(ev)
        for x in ev:
            key = x["op"] + (":" + x["kind"] if x["op"] == "draw" else "")
            ops[key] = ops.get(key, 0) + 1
    tf = os.path.join(work, "traces_c16.json")
    with open(tf, "w") as f:
        json.dump(traces, f)
    res = engine.run_tlc(work, "Trace_C16", constants={}, init="TInit", next_="TNext", invariants=["Report", "TConnected"],
                         dump=False, workers=1, env={"TRACE_FILE": tf}, timeout=3000)
    run.add_tlc(res, "trace validation of %d recorded edit histories" % len(traces))
    rejected = {r[1]: r[2] for r in engine.printed_tuples(res["out"], "REJECT")}
    for i, ev in enumerate(traces, 1):
        run.traces += 1
        if i in rejected:
            clause, at = rejected[i].split("@")
            at = int(at)
            run.violations.append({"case": {"history": brief(ev[:at]), "events": ev[max(0, at - 2):at]},
                                   "dis": {"clause": "Trace:" + clause, "shape_class": "trace", "ops": ev[at - 1]["op"],
                                           "detail": "TLC rejects step %d (%s) of the recorded history %s: logged geometry %s" % (
                                               at, brief(ev[at - 1:at])[0], brief(ev[:at]), ev[at - 1]["geo"])}})
    if traces:
        run.sample({"recorded_history": brief(traces[0]), "first_events": traces[0][:2]})
    run.extra["edit_traces_recorded"] = len(traces)
    run.extra["edit_trace_events_by_operation"] = ops
    run.extra["edit_traces_rejected_by_tlc"] = len(rejected)
    # binding self-test: corrupt one logged point / drop one event; TLC must reject
    bad = json.loads(json.dumps([t for t in traces if len(t) > 6][:20]))
    for j, tr in enumerate(bad):
        if j % 2 == 0:
            g = tr[-1]["geo"]
            g[-1][1] = [g[-1][1][0] + 1, g[-1][1][1]]
            if g[-1][2]:
                g[-1][2][0][1] = [g[-1][2][0][1][0] + 1, g[-1][2][0][1][1]]
        else:
            idx = next((i for i, x in enumerate(tr[1:-1], 1) if x["op"] != "mul" or True), 1)
            del tr[idx]
    with open(tf, "w") as f:
        json.dump(bad, f)
    res2 = engine.run_tlc(work, "Trace_C16", constants={}, init="TInit", next_="TNext", invariants=["Report"], dump=False,
                          workers=1, env={"TRACE_FILE": tf}, timeout=600)
    rej2 = {r[1] for r in engine.printed_tuples(res2["out"], "REJECT")}
    run.extra["edit_trace_binding_selftest"] = {"corrupted_or_truncated_traces": len(bad), "rejected": len(rej2)}
    if len(rej2) < max(1, len(bad) * 3 // 4):
        raise engine.MachineryError("edit-trace self-test: only %d of %d corrupted traces rejected" % (len(rej2), len(bad)))
