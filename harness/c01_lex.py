"""C01/C09 lexical half: PathLex (TLA+) decides what every short string over the number alphabet
means; the real tokenizer must agree on every conforming one ("ok"), and must be total on all."""
from fractions import Fraction
from . import engine

svg = None


def worker_init():
    global svg
    svg = engine.import_lib()


def numval(n):
    neg, mant, e = n
    v = Fraction(mant) * (Fraction(10) ** e)
    return float(-v if neg else v)


WSP = [" ", "\t", "\n", "\r", "\f", "\r\n"]


def check_case(case):
    """The specification treats all white-space characters alike (PathLex!Wsp), so each case is run
    with plain spaces and with every space replaced by a seeded member of Wsp."""
    base = case["s"]
    k = case.get("seed", 0) + len(base)
    alt = [WSP[(k + i) % len(WSP)] if c == " " else c for i, c in enumerate(base)]
    r = check_one(case, "".join(base))
    if alt != base:
        r2 = check_one(case, "".join(alt))
        r["dis"] += r2["dis"]
    return r


def check_one(case, s):
    status, nums = case["res"]
    dis = []
    if case["kind"] == "num":
        d = "M0,0H" + s
        try:
            p = svg.Path(d)
            got = [seg.end.x for seg in list(p)[1:]]
            raised = None
        except ValueError:
            raised, got = "ValueError", None
        except Exception as e:
            raised, got = type(e).__name__, None
        if raised not in (None, "ValueError"):
            dis.append({"clause": "Totality", "detail": "%s on %r" % (raised, d), "d": d})
        elif status == "ok":
            want = [numval(n) for n in nums]
            if raised:
                dis.append({"clause": "LexRaises", "detail": "conforming number list %r raises %s" % (s, raised), "d": d})
            elif got != want:
                dis.append({"clause": "LexNumbers", "detail": "%r: grammar gives %s, parser read %s" % (s, want, got), "d": d})
    else:
        d = "M0,0A" + s
        try:
            p = svg.Path(d)
            raised = None
        except ValueError:
            raised = "ValueError"
        except Exception as e:
            raised = type(e).__name__
        if raised not in (None, "ValueError"):
            dis.append({"clause": "Totality", "detail": "%s on %r" % (raised, d), "d": d})
        elif status == "ok":
            rx, ry, rot, fa, fs, x, y = nums
            if raised:
                dis.append({"clause": "LexRaises", "detail": "conforming arc group %r raises %s" % (s, raised), "d": d})
            elif len(p) != 2 or type(p[1]).__name__ != "Arc":
                dis.append({"clause": "LexArc", "detail": "%r: expected one arc, got %s" % (s, [type(q).__name__ for q in p]), "d": d})
            else:
                ref = svg.Arc(svg.Point(0, 0), abs(numval(rx)), abs(numval(ry)), numval(rot), bool(fa), bool(fs),
                              svg.Point(numval(x), numval(y)))
                a = p[1]
                ok = a.end == ref.end and all(abs(a.point(t) - ref.point(t)) < 1e-9 for t in (0.25, 0.5, 0.75))
                if not ok:
                    dis.append({"clause": "LexArc", "detail": "%r: arc differs from the arc of the lexed arguments %s" % (s, nums), "d": d})
    return {"dis": dis, "nontrivial": status == "ok" and len(nums) >= 2, "class": case["kind"] + ":" + status,
            "checked": ["Totality"] + (["LexNumbers"] if status == "ok" else [])}


def cases(path, kind, seed=0):
    for st in engine.read_dump(path):
        yield {"s": st["s"], "res": st["res"], "kind": kind, "seed": seed}


def run_into(run, work, tier, seed):
    maxlen = 5 if tier == "quick" else 6
    res = engine.run_tlc(work, "MC_C01_lex", constants={"MaxLen": maxlen},
                         invariants=["OkHasNumbers", "StatusTotal", "DigitsOnly"])
    run.add_tlc(res, "PathLex: all strings of length <= %d over {0,1,5,.,-,+,e,comma,space}" % maxlen)
    counts = {}
    n = 0
    for case, r in engine.replay("harness.c01_lex", cases(res["dump"], "num", seed), chunk=2000):
        run.record(case, r, key="lex:" + "".join(case["s"]))
        counts[r["class"]] = counts.get(r["class"], 0) + 1
        if n % 20000 == 4321:
            run.sample({"lexer_string": "".join(case["s"]), "PathLex": case["res"]})
        n += 1
    res = engine.run_tlc(work, "MC_C01_arc", constants={"Full": "FALSE" if tier == "quick" else "TRUE"},
                         invariants=["PrintThenLex"])
    run.add_tlc(res, "PathLex arc group: token spellings x separator choices")
    for case, r in engine.replay("harness.c01_lex", cases(res["dump"], "arc", seed), chunk=2000):
        run.record(case, r, key="arc:" + "".join(case["s"]))
        counts[r["class"]] = counts.get(r["class"], 0) + 1
        if n % 20000 == 4321:
            run.sample({"arc_group_string": "".join(case["s"]), "PathLex": case["res"]})
        n += 1
    run.extra["lexer_cases_by_class"] = counts
