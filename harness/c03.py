"""C03 - parsed documents give each shape its spec-defined absolute geometry.

MC_C03 (DocCore.tla + Shapes + Viewport + PathOps): every token prefix of <= MaxTok elements over
the vocabulary (svg root variants, g / nested svg / defs, shapes with lengths, percentages and
transforms, use incl. use of a group, forward and dangling references, display:none) x caller
configurations; the spec renders each document to the list of shapes with their CTM.  The real
parser must return the same shapes, in the same order, with the same absolute geometry, with and
without reification."""
import io
import os
from fractions import Fraction
from . import engine, c06, c16, docutil

svg = None
CASE_TIMEOUT = 10.0
CLS = {"rect": "Rect", "circle": "Circle", "ellipse": "Ellipse", "line": "SimpleLine", "polyline": "Polyline", "polygon": "Polygon", "path": "Path"}


def worker_init():
    global svg
    svg = engine.import_lib()
    c06.svg = svg
    c16.svg = svg


def rat(q):
    return Fraction(q[0], q[1])


def parse_kwargs(cfg, k):
    kw = {"ppi": 96.0}
    for name, v, kk in (("width", cfg[0], k), ("height", cfg[1], k + 1)):      # either may be supplied on its own
        if v != []:
            # a number, a string with a unit, or a Length object
            kw[name] = float(rat(v)) if k % 3 == 0 else (docutil.length(["abs", v], kk) if k % 3 == 1 else svg.Length(docutil.length(["abs", v], kk)))
    if cfg[2]:
        kw["transform"] = docutil.TF_STR[cfg[2]]
    return kw


def shapes_of(d):
    return [e for e in d.elements() if isinstance(e, svg.Shape)]


def compare_render(shapes, out, what):
    dis = []
    if len(shapes) != len(out):
        dis.append({"clause": "ShapeCount", "detail": "%s: %d shapes %s, expected %d %s" % (
            what, len(shapes), [type(s).__name__ for s in shapes], len(out), [o[0] for o in out])})
        return dis
    for i, (s, o) in enumerate(zip(shapes, out)):
        kind, geo, ctm = o[0], o[1], o[2]
        if type(s).__name__ != CLS[kind]:
            dis.append({"clause": "ShapeKindOrder", "detail": "%s: shape %d is %s, expected %s" % (what, i, type(s).__name__, CLS[kind])})
            continue
        M = tuple(float(rat(v)) for v in ctm)
        try:
            real = c16.geometry(abs(svg.Path(s)))
        except engine.CaseTimeout:
            raise
        except Exception as e:
            dis.append({"clause": "Raises", "detail": "%s: abs(Path(shape %d)) raised %s: %s" % (what, i, type(e).__name__, str(e)[:60])})
            continue
        for x in c06.compare(real, geo, M, "%s: shape %d (%s)" % (what, i, kind)):
            x["shape"] = kind
            dis.append(x)
    return dis


def features(doc):
    f = set()
    for i, t in enumerate(doc):
        if t[0] == "svg" and i > 0:
            f.add("nested_svg" + ("" if t[4][4] else "_noviewbox"))
        if t[0] == "use":
            f.add("use")
        if t[0] in ("rect", "circle", "ellipse", "line") and any(l[0] == "none" for l in t[4] if isinstance(l, list) and l and l[0] in ("none", "abs", "pct")):
            f.add("omitted_geometry_attr")
        if any(isinstance(l, list) and l and l[0] == "pct" for l in (t[4] if isinstance(t[4], list) else [])):
            f.add("percent")
    return sorted(f)


def check_circle_pct(case):
    """<circle r="p%">: a percentage that is neither a width nor a height refers to the normalised diagonal of the viewport,
    sqrt((w^2 + h^2) / 2) (SVG 1.1 section 7.10) - irrational in general, so the expected radius is this closed formula and
    not a TLC value.  Whatever the size of the viewport, a circle is round."""
    import math
    W, H, p, nested = case["W"], case["H"], case["p"], case["nested"]
    inner = '<circle id="c" cx="%d" cy="%d" r="%s%%"/>' % (W // 2, H // 2, p)
    if nested:
        xml = '<svg xmlns="http://www.w3.org/2000/svg" width="1000" height="1000"><svg x="10" y="20" width="%d" height="%d">%s</svg></svg>' % (W, H, inner)
        cx, cy = W // 2 + 10, H // 2 + 20
    else:
        xml = '<svg xmlns="http://www.w3.org/2000/svg" width="%d" height="%d">%s</svg>' % (W, H, inner)
        cx, cy = W // 2, H // 2
    r = p / 100.0 * math.sqrt((W * W + H * H) / 2.0)
    dis = []
    for reify in (True, False):
        what = "parse(reify=%s) of %s" % (reify, xml)
        try:
            d = svg.SVG.parse(io.StringIO(xml), reify=reify)
            shapes = [e for e in d.elements() if isinstance(e, svg.Shape)]
            bb = shapes[0].bbox()
        except engine.CaseTimeout:
            raise
        except Exception as e:
            dis.append({"clause": "Raises", "detail": "%s raised %s: %s" % (what, type(e).__name__, str(e)[:80])})
            continue
        want = (cx - r, cy - r, cx + r, cy + r)
        if len(shapes) != 1 or bb is None or any(abs(g - w) > 1e-9 * max(W, H) for g, w in zip(bb, want)):
            dis.append({"clause": "CirclePercent", "detail": "%s: the circle has box %r, a circle of radius %s%% of the normalised diagonal %r has %r" % (
                what, bb, p, math.sqrt((W * W + H * H) / 2.0), want)})
    return {"dis": dis, "nontrivial": W != H, "class": "circle_pct", "xml": xml, "checked": ["CirclePercent"]}


def check_case(case):
    if "W" in case:
        return check_circle_pct(case)
    doc, cfg, out, k = case["doc"], case["cfg"], case["out"], case["n"] + case["seed"]
    xml = docutil.to_xml(doc, k)
    kw = parse_kwargs(cfg, k)
    dis = []
    results = {}
    for reify in (True, False):
        what = "parse(reify=%s, %s) of %s" % (reify, {a: b for a, b in kw.items() if a != "ppi"}, xml)
        try:
            kwc = dict(kw)
            if "transform" in kwc and k % 3 == 2:
                kwc["transform"] = svg.Matrix(kwc["transform"])         # the caller's transform as a Matrix object
            d = svg.SVG.parse(io.StringIO(xml), reify=reify, **kwc)
            shapes = shapes_of(d)
        except engine.CaseTimeout:
            raise
        except Exception as e:
            dis.append({"clause": "Raises", "detail": "%s raised %s: %s" % (what, type(e).__name__, str(e)[:80]), "reify": reify})
            continue
        for x in compare_render(shapes, out, what):
            x["reify"] = reify
            dis.append(x)
    feats = features(doc)
    for x in dis:
        x["features"] = feats
        x["xml"] = xml
    return {"dis": dis, "nontrivial": len(out) >= 1 and len(doc) >= 3, "class": "|".join(t[0] for t in doc), "xml": xml,
            "checked": ["ShapeCount", "ShapeKindOrder", "StartPoint", "EdgeEnds", "ArcOffEllipse"]}


def cases_from_dump(path, seed):
    n = 0
    for st in engine.read_dump(path):
        n += 1
        yield {"doc": st["doc"], "cfg": st["cfg"], "out": st["out"], "n": n, "seed": seed}


def run(tier, seed):
    run = engine.Run("C03", tier, seed)
    work = engine.workdir("C03")
    try:
        consts = {"MaxTok": 4, "Full": "FALSE"} if tier == "quick" else {"MaxTok": 4, "Full": "TRUE"}
        res = engine.run_tlc(work, "MC_C03", constants=consts, invariants=["NothingFromHidden", "CompleteIsBalanced", "WriterLaw"], timeout=7200)
        run.add_tlc(res, "DocCore documents, %s" % consts)
        n = 0
        for case, r in engine.replay("harness.c03", cases_from_dump(res["dump"], seed), chunk=100):
            run.record(case, r, key=r.get("xml", str(case["doc"])) + str(case["cfg"]))
            if n % 4000 == 5:
                run.sample({"xml": r.get("xml"), "cfg": case["cfg"], "expected_shapes": [[o[0], o[2]] for o in case["out"]]})
            n += 1
        # beyond the exhaustive bound: random behaviours of the same machine, documents of 6 and 10 tokens
        num = 3 if tier == "quick" else 150
        sres, vals = engine.simulate_cases(work, "MC_C03", {"MaxTok": 10, "Full": "TRUE"}, num=num, depth=12, seed=seed + 1)
        run.add_tlc(sres, "DocCore documents by TLC -simulate: %d behaviours of 10 tokens, every one-step extension emitted" % sres["behaviours"])
        sim = [{"doc": v[1], "cfg": v[2], "out": v[3], "n": i, "seed": seed} for i, v in enumerate(vals)]
        for case, r in engine.replay("harness.c03", sim, chunk=50):
            run.record(case, r, key=r.get("xml", str(case["doc"])) + str(case["cfg"]))
            if case["n"] == 7:
                run.sample({"simulated": True, "xml": r.get("xml"), "cfg": case["cfg"], "expected_shapes": [[o[0], o[2]] for o in case["out"]]})
        run.extra["simulated_documents"] = len(sim)
        # percentage radius of a circle (closed formula, see check_circle_pct)
        pct = [{"W": W, "H": H, "p": p, "nested": nested} for (W, H) in ((200, 100), (100, 700), (70, 170), (300, 300), (96, 48))
               for p in (10, 25, 50) for nested in (False, True)]
        for case, r in engine.replay("harness.c03", pct, chunk=10):
            run.record(case, r, key=r.get("xml"))
        run.extra["circle_percent_cases"] = len(pct)
        # generated documents: the harness draws closed documents with varied geometry, units, percentages, viewBoxes and
        # alignments (harness/docgen.py), TLC evaluates DocCore!RenderDoc on each, the parser is compared with that
        import json
        import random
        from . import docgen
        rng = random.Random(seed * 7907 + 3)
        ndocs = 1500 if tier == "quick" else 40000
        docs = [docgen.gen_doc(rng, rng.randint(1, 12)) for _ in range(ndocs)]
        gen = []
        for part in range(0, ndocs, 5000):
            df = os.path.join(work, "docs_%d.json" % part)
            with open(df, "w") as f:
                json.dump(docs[part:part + 5000], f)
            gres = engine.run_tlc(work, "MC_C03", constants={"MaxTok": 0, "Full": "FALSE"}, init="InitGen", next_="NextGen",
                                  env={"DOCS_FILE": df}, timeout=7200)
            run.add_tlc(gres, "DocCore!RenderDoc evaluated by TLC on %d generated documents" % len(docs[part:part + 5000]))
            for i, st in enumerate(engine.read_dump(gres["dump"])):
                gen.append({"doc": st["doc"], "cfg": st["cfg"], "out": st["out"], "n": part + i, "seed": seed})
        for case, r in engine.replay("harness.c03", gen, chunk=50):
            run.record(case, r, key=r.get("xml", str(case["doc"])) + str(case["cfg"]))
            if case["n"] == 11:
                run.sample({"generated": True, "xml": r.get("xml"), "cfg": case["cfg"], "expected_shapes": [[o[0], o[2]] for o in case["out"]]})
        run.extra["generated_documents"] = len(gen)
    finally:
        engine.cleanup(work)
    run.rule = ("cases = states of MC_C03: every token prefix (root variant + <= MaxTok-1 tokens from the alphabet of containers, shapes, use and end) closed "
                "into a document x caller configurations, parsed with reify=True and False; non-trivial = renders >= 1 shape and has >= 2 elements below the root")
    run.assumptions = ["spelling of lengths/units/transform strings/href form varies with VERIF_SEED", "rx/ry percentages are not used in documents",
                       "geometry compared through PathOps geometry (c06 comparator): straight edges 1e-9 x size, arcs on the mapped ellipse"]
    return run.finish()


def replay_case(case):
    worker_init()
    return check_case(case)
