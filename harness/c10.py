"""C10 - document parsing never aborts on a bad element; siblings are unaffected.

MC_C10 (DocCore + DocFault): documents in which every element has an id x one (quick) or two
(thorough) faults: malformed transform / colour / style / length / path data / points / viewBox /
preserveAspectRatio text, dangling, self and ancestor use references.  Expected = the rendering of
the document with the faulty elements removed.  SVG.parse in its default error mode must return,
and the shapes outside the faulty elements must equal that rendering."""
import io
from fractions import Fraction
from . import engine, docutil, c03, c06, c16

svg = None
CASE_TIMEOUT = 10.0

FAULT_TEXT = {
    "tf_unclosed": ["translate(10,20", "rotate(30", "scale(2,3) translate(5"],
    "tf_unknown": ["frobnicate(3)", "rotate(", "translate", "spin(90) rotate(10"],
    "tf_few_numbers": ["matrix(1,2)", "rotate()", "translate()", "matrix(1 0 0 1 5)", "scale()", "skewX()"],
    "tf_bad_unit": ["scale(2px)", "rotate(1em)", "skewX(3px)", "translate(1em, 2ex)", "matrix(1,0,0,1,5px,6px)", "translate(50%,50%)", "translate(1in, 25%) scale(2)"],
    "colour_bad": ["rgb(1,2", "#12", "notacolour(1)", "rgb(a,b,c)", "hsl(1,2,3)", "rgb(1.5.5,2,3)", "url(#nothing)", "rgb(1e999%,0%,0%)", "rgb(1e999,0,0)",
                   "rgba(1,2,3,1e999)", "hsl(1e999,50%,50%)", "rgb(nan,0,0)", "#"],
    "style_garbage": ["fill:;:;;stroke", ";;;", "fill:rgb(1,2;stroke-width:abc", "stroke-width:1em;transform:rotate(", "fill:red:blue", ":::",
                      "fill:url(http://example.org/p#q)", "a:b:c;stroke", "fill"],
    "length_garbage": ["abc", "12qq", "1e", "--5", "5 5", "calc(1+2)", "", "5em", "1e999", "inf", "nan", "3ex", "1e-999"],
    "opacity_bad": ["1e999", "inf", "abc", "-1e999", "nan", "50%%", ""],
    "length_negative": ["-5", "-1e3", "-0.001"],
    "d_truncated": ["M 10 10 L 20", "M 10 10 C 1 2 3 4 5", "M 10", "M 1 1 h", "M 1 1 Q 2 2"],
    "d_arc_short": ["M1,1 A 5", "M1,1 A 5 5 0 2 1 9 9", "M1,1 a 5 5 0 0", "M 1 1 A 1 z"],
    "d_no_move": ["L 5 5 z", "h 3", "a 5 3 30 0 1 4 -3", "T 3 1 T 3 1", "z"],
    "d_garbage": ["M1,1 a 1e-200 5 0 0 1 4,4", "M0,0 A 1e200 1e200 0 0 1 5 5", "M0,0 L1e999,5", "M 1 1 & ? L", "hello", "M 1 1 L 2 2 é 3 3", "M1,1 L NaN,inf", "M 1 1 L 1e999 5"],
    "points_odd": ["1,2 3", "1 2 3 4 5", "7"],
    "points_garbage": ["a,b c", "1,2,x,4", ",,,", "1e,2"],
    "viewbox_garbage": ["0 0 x y", "a b c d", "0,0,100", "none"],
    "viewbox_short": ["1 2 3", "5", ""],
    "viewbox_zero": ["0 0 0 0", "0 0 0 10", "5 5 10 0"],
    "par_garbage": ["xFooYBar nonsense", "meet", "xMidYMid slice extra", ""],
    "image_bad_data": ["data:image/png;base64,@@@@", "data:image/png;base64,iVBORw0KGgo=", "data:;base64,A", "data:image/png;base64,%%%"],
}
LENGTH_ATTR = {"rect": "width", "circle": "r", "ellipse": "rx", "line": "x2", "svg": "width", "use": "x", "image": "width"}


def faults_of(tag):
    """DocFault!FaultsOf"""
    f = ["tf_unclosed", "tf_unknown", "tf_few_numbers", "tf_bad_unit", "colour_bad", "style_garbage", "opacity_bad"]
    if tag in ("rect", "circle", "ellipse", "line"):
        f += ["length_garbage", "length_negative"]
    if tag == "path":
        f += ["d_truncated", "d_arc_short", "d_no_move", "d_garbage"]
    if tag in ("polyline", "polygon"):
        f += ["points_odd", "points_garbage"]
    if tag == "svg":
        f += ["viewbox_garbage", "viewbox_short", "viewbox_zero", "par_garbage", "length_garbage"]
    if tag == "use":
        f += ["href_missing", "href_self", "length_garbage"]
    return f


def generated_cases(rng, n):
    """documents of docgen with unique ids on every element and 1..3 faults at random places"""
    from . import docgen
    out = []
    while len(out) < n:
        g = docgen.gen_doc(rng, rng.randint(2, 10))
        doc = g["doc"]
        k = 0
        for t in doc:
            if t[0] != "end" and not t[1]:
                k += 1
                t[1] = "x%d" % k
        doc[0][1] = "root"
        doc[0][2] = 0
        # forward references: some uses point at an element that is defined LATER in the document (cycles that arise are
        # DocFault's CyclicUses)
        for i, t in enumerate(doc):
            if t[0] == "use" and rng.random() < 0.3:
                later = [u[1] for u in doc[i + 1:] if u[0] not in ("end", "use", "defs")]
                if later:
                    t[4] = [rng.choice(later)] + list(t[4][1:])
        idx = [i + 1 for i, t in enumerate(doc) if t[0] != "end"]
        fs = sorted(rng.sample(idx, min(len(idx), rng.choice([1, 1, 2, 3]))))
        out.append({"doc": doc, "faults": [[i, rng.choice(faults_of(doc[i - 1][0]))] for i in fs]})
    out[:0] = forward_seeds()
    return out


def forward_seeds():
    """hand-made: a group that is used BEFORE it is defined, contains a dangling use, and is used again afterwards"""
    from .docgen import NOL, A, E0
    root = ["svg", "root", 0, False, [NOL, NOL, A(200), A(100), [], ["xMidYMid", ""]], []]
    seeds = []
    for inner in ("use_dangling_first", "use_dangling_last"):
        for later_uses in (1, 2):
            rect = ["rect", "r1", 0, False, [A(1), A(2), A(30), A(40), NOL, NOL], []]
            dang = ["use", "u2", 0, False, ["r1", A(3), NOL], []]              # made dangling by the fault below
            body = [dang, rect] if inner == "use_dangling_first" else [rect, dang]
            doc = [list(root), ["use", "u1", 0, False, ["A", NOL, A(5)], []], ["g", "A", 2, False, [], []]] + body + [list(E0)]
            doc += [["use", "u%d" % (3 + j), 0, False, ["A", A(10 * (j + 1)), NOL], []] for j in range(later_uses)]
            doc += [["circle", "c1", 0, False, [A(5), A(6), A(7)], []], list(E0)]
            fault_at = 1 + doc.index(dang)
            seeds.append({"doc": doc, "faults": [[fault_at, "href_missing"]]})
    return seeds


def worker_init():
    global svg
    svg = engine.import_lib()
    for m in (c03, c06, c16):
        m.svg = svg


def faulty_attrs(doc, faults, k):
    """per token index (1-based) -> {attribute: text} overrides"""
    over = {}
    for j, (i, kind) in enumerate(faults):
        tok = doc[i - 1]
        o = over.setdefault(i, {})
        if kind.startswith("tf_"):
            o["transform"] = FAULT_TEXT[kind][(k + j) % len(FAULT_TEXT[kind])]
        elif kind == "colour_bad":
            o[["fill", "stroke"][(k + j) % 2]] = FAULT_TEXT[kind][(k + j) % len(FAULT_TEXT[kind])]
        elif kind == "opacity_bad":
            o[["fill-opacity", "stroke-opacity"][(k + j) % 2]] = FAULT_TEXT[kind][(k + j) % len(FAULT_TEXT[kind])]
            o.setdefault("fill", "red")
            o.setdefault("stroke", "blue")
        elif kind == "style_garbage":
            o["style"] = FAULT_TEXT[kind][(k + j) % len(FAULT_TEXT[kind])]
        elif kind in ("length_garbage", "length_negative"):
            attr = LENGTH_ATTR[tok[0]]
            if tok[0] in ("svg", "rect", "image") and (k + j) % 3 == 1:
                attr = "height"
            o[attr] = FAULT_TEXT[kind][(k + j) % len(FAULT_TEXT[kind])]
        elif kind.startswith("d_"):
            o["d"] = FAULT_TEXT[kind][(k + j) % len(FAULT_TEXT[kind])]
        elif kind.startswith("points_"):
            o["points"] = FAULT_TEXT[kind][(k + j) % len(FAULT_TEXT[kind])]
        elif kind.startswith("viewbox_"):
            o["viewBox"] = FAULT_TEXT[kind][(k + j) % len(FAULT_TEXT[kind])]
        elif kind == "par_garbage":
            o["preserveAspectRatio"] = FAULT_TEXT[kind][(k + j) % len(FAULT_TEXT[kind])]
        elif kind == "image_bad_data":
            o["xlink:href"] = FAULT_TEXT[kind][(k + j) % len(FAULT_TEXT[kind])]
        elif kind == "href_missing":
            o["href"] = "#nope"
        elif kind == "href_self":
            o["href"] = "#" + tok[1]
        elif kind == "href_ancestor":
            # nearest non-root ancestor
            depth, anc = [], None
            for jj, t in enumerate(doc[:i - 1]):
                if t[0] == "end":
                    depth.pop()
                elif t[0] in ("svg", "g", "defs"):
                    depth.append(t[1])
            o["href"] = "#" + (depth[-1] if len(depth) > 1 else depth[0])
    return over


def to_xml(doc, over, k):
    out, stack, first = [], [], True
    for idx, tok in enumerate(doc, 1):
        tag = tok[0]
        if tag == "end":
            out.append("</%s>" % stack.pop())
            continue
        a = docutil.attrs_of(tok, k)
        o = over.get(idx, {})
        if "href" in o:
            a = [(n, v) for n, v in a if n not in ("href", "xlink:href")] + [("xlink:href" if k % 2 else "href", o["href"])]
        for n, v in o.items():
            if n == "href":
                continue
            a = [(m, w) for m, w in a if m != n] + [(n, v)]
        if first:
            a = [("xmlns", "http://www.w3.org/2000/svg"), ("xmlns:xlink", "http://www.w3.org/1999/xlink")] + a
        wtag = tag
        if tag == "defs" and (k + idx) % 3 == 1:
            # another never-rendered container element: a pattern, whose transform attribute is patternTransform
            wtag = "pattern"
            a = [("patternTransform" if n == "transform" else n, v) for n, v in a]
        s = "<%s%s" % (wtag, "".join(' %s="%s"' % (n, docutil.esc(v)) for n, v in a))
        if tag in ("svg", "g", "defs"):
            out.append(s + ">")
            stack.append(wtag)
        else:
            out.append(s + "/>")
        first = False
    while stack:
        out.append("</%s>" % stack.pop())
    return "".join(out)


def collect(node, faulty_ids, acc, inside_ids=()):
    if getattr(node, "id", None) in faulty_ids:
        return
    if getattr(node, "id", None) in inside_ids and not isinstance(node, svg.Shape):
        # a container or use defined inside a faulty container, reached through a use outside it: whatever it
        # renders (including elements defined elsewhere that it references) passes through the faulty subtree - left open
        return
    if isinstance(node, svg.Shape):
        # an element defined inside a faulty container may still be rendered through a use outside it: that too is left open
        if node.id not in inside_ids:
            acc.append(node)
        return
    if isinstance(node, (svg.Group, svg.Use)):
        for c in node:
            collect(c, faulty_ids, acc, inside_ids)


def check_case(case):
    doc, faults, out, k = case["doc"], case["faults"], case["out"], case["n"] + case["seed"]
    full = list(doc)
    depth = 0
    for t in doc:
        depth += 1 if t[0] in ("svg", "g", "defs") else (-1 if t[0] == "end" else 0)
    full += [["end", "", 0, False, [], []]] * depth
    over = faulty_attrs(full, faults, k)
    xml = to_xml(full, over, k)
    faulty_ids = {full[i - 1][1] for i, _ in faults} | {full[i - 1][1] for i in case.get("cyc", [])}   # cyclic uses are faulty elements
    inside_ids = set()
    for i, _ in faults:
        if full[i - 1][0] in ("svg", "g", "defs"):
            d_ = 0
            for t in full[i - 1:]:
                d_ += 1 if t[0] in ("svg", "g", "defs") else (-1 if t[0] == "end" else 0)
                if t[0] != "end":
                    inside_ids.add(t[1])
                if d_ == 0:
                    break
    dis = []
    what = "parse of %s" % xml
    try:
        d = svg.SVG.parse(io.StringIO(xml))
    except engine.CaseTimeout:
        dis.append({"clause": "Hangs", "detail": "%s did not return within %ss" % (what, CASE_TIMEOUT)})
        d = None
    except RecursionError:
        dis.append({"clause": "Aborts", "exc": "RecursionError", "detail": "%s raised RecursionError" % what})
        d = None
    except Exception as e:
        dis.append({"clause": "Aborts", "exc": type(e).__name__, "detail": "%s raised %s: %s" % (what, type(e).__name__, str(e)[:80])})
        d = None
    if d is not None and not (faults and faults[0][0] == 1):
        acc = []
        try:
            collect(d, faulty_ids, acc, inside_ids)
            ids = [s.id for s in acc]
            want_ids = [o[4] for o in out]
            if ids != want_ids:
                dis.append({"clause": "SiblingsChanged", "detail": "%s: shapes outside the faulty elements %s are %s, expected %s" % (what, sorted(faulty_ids), ids, want_ids)})
            else:
                for x in c03.compare_render(acc, out, what):
                    x["clause"] = "Sibling:" + x["clause"]
                    dis.append(x)
        except engine.CaseTimeout:
            raise
        except Exception as e:
            dis.append({"clause": "ResultUnusable", "detail": "%s: walking the result raised %s: %s" % (what, type(e).__name__, str(e)[:80])})
    kinds = [f[1] for f in faults]
    tags = [full[f[0] - 1][0] for f in faults]
    for x in dis:
        x["fault_kinds"] = kinds
        x["fault_tags"] = tags
        x["xml"] = xml
    return {"dis": dis, "nontrivial": bool(faults), "class": "%s@%s" % ("+".join(kinds), "+".join(tags)), "xml": xml,
            "checked": ["Aborts", "Hangs", "SiblingsChanged", "Sibling geometry"]}


def cases_from_dump(path, seed):
    n = 0
    for st in engine.read_dump(path):
        n += 1
        if st["faults"] or st["cyc"]:
            yield {"doc": st["doc"], "faults": st["faults"], "out": st["out"], "cyc": st["cyc"], "n": n, "seed": seed}


def run(tier, seed):
    run = engine.Run("C10", tier, seed)
    work = engine.workdir("C10")
    try:
        consts = {"Full": "FALSE", "MaxTok": 4, "NFaults": 1, "MinTok": 1} if tier == "quick" else {"Full": "TRUE", "MaxTok": 4, "NFaults": 2, "MinTok": 1}
        res = engine.run_tlc(work, "MC_C10", constants=consts, invariants=["RemovedIsBalanced", "SeedsAreCyclic"], timeout=7200)
        run.add_tlc(res, "DocFault: documents x fault placements, %s" % consts)
        n = 0
        byfault = {}
        for case, r in engine.replay("harness.c10", cases_from_dump(res["dump"], seed), chunk=100):
            run.record(case, r, key=r.get("xml", str(case["doc"]) + str(case["faults"])))
            byfault[r.get("class")] = byfault.get(r.get("class"), 0) + 1
            if n % 6000 == 5:
                run.sample({"xml": r.get("xml"), "faults": case["faults"], "expected_ids": [o[4] for o in case["out"]]})
            n += 1
        # beyond the exhaustive bound: documents of 6..9 tokens with up to 3 faults
        sres, vals = engine.simulate_cases(work, "MC_C10", {"Full": "TRUE", "MaxTok": 9, "NFaults": 3, "MinTok": 6}, num=(1 if tier == "quick" else 40), depth=14, seed=seed + 1)
        run.add_tlc(sres, "DocFault on documents of 6-9 tokens, up to 3 faults, by TLC -simulate (%d behaviours)" % sres["behaviours"])
        sim = [{"doc": v[1], "faults": v[2], "out": v[3], "cyc": v[4], "n": i, "seed": seed} for i, v in enumerate(vals)]
        for case, r in engine.replay("harness.c10", sim, chunk=100):
            run.record(case, r, key=r.get("xml", str(case["doc"]) + str(case["faults"])))
            byfault["sim:" + str(r.get("class"))] = byfault.get("sim:" + str(r.get("class")), 0) + 1
        run.extra["simulated_documents_replayed"] = len(sim)
        # generated documents with 1..3 faults (harness/docgen.py), reference rendering evaluated by TLC
        import json
        import os
        import random
        rng = random.Random(seed * 5003 + 10)
        gdocs = generated_cases(rng, 1200 if tier == "quick" else 30000)
        gen = []
        for part in range(0, len(gdocs), 5000):
            df = os.path.join(work, "docs_%d.json" % part)
            with open(df, "w") as f:
                json.dump(gdocs[part:part + 5000], f)
            gres = engine.run_tlc(work, "MC_C10", constants={"Full": "TRUE", "MaxTok": 0, "NFaults": 0, "MinTok": 1}, init="InitGen", next_="NextGen",
                                  env={"DOCS_FILE": df}, timeout=7200)
            run.add_tlc(gres, "DocFault reference rendering of %d generated faulty documents" % len(gdocs[part:part + 5000]))
            for i, st in enumerate(engine.read_dump(gres["dump"])):
                gen.append({"doc": st["doc"], "faults": st["faults"], "out": st["out"], "cyc": st["cyc"], "n": part + i, "seed": seed})
        for case, r in engine.replay("harness.c10", gen, chunk=100):
            run.record(case, r, key=r.get("xml", str(case["doc"]) + str(case["faults"])))
            byfault["gen:" + str(r.get("class"))] = byfault.get("gen:" + str(r.get("class")), 0) + 1
        run.extra["generated_documents_replayed"] = len(gen)
        run.extra["cases_by_fault_and_tag"] = byfault
    finally:
        engine.cleanup(work)
    run.rule = ("cases = states of MC_C10 with >= 1 fault: every document of <= MaxTok-1 distinct id-carrying elements below the root x every applicable fault kind "
                "on every element (root included); fault text drawn from a table by VERIF_SEED; non-trivial = a fault is present")
    run.assumptions = ["faults are placed in attribute values (not in style sheet text); XML is well formed",
                       "what the faulty element and its subtree render is left open"]
    return run.finish()


def replay_case(case):
    worker_init()
    return check_case(case)
