"""C01 - path data is interpreted exactly as the SVG path grammar prescribes.

Binding A: every state of MC_C01 (PathInterp explored by TLC) is one behaviour: hist = the
commands, segs = the segments the specification defines.  The harness spells hist as a path-data
string (canonical spelling and a seeded alternative spelling), parses it with the real library and
compares segment by segment.  PathLex (number/separator grammar) is checked by c01_lex.
"""
import random
import zlib
from . import engine
from .pathutil import hist_to_d, compare_segs, connectivity

svg = None
SEED = 0


def worker_init():
    global svg
    svg = engine.import_lib()


def classify(hist):
    """Input class of a behaviour: the pair (previous command, last command) kinds - used for known
    findings and for counting distinct non-trivial cases."""
    ls = [("%s%s%s" % (h[0], "i" if h[2] else "", "z" if h[3] else "")) for h in hist]
    return ">".join(ls)


def check_case(case):
    hist, segs, seed = case["hist"], case["segs"], case["seed"]
    dis = []
    tried = []
    for variant in (None, seed):
        rng = None if variant is None else random.Random(variant ^ zlib.crc32(repr(hist).encode()))
        d = hist_to_d(hist, rng)
        if d in tried:
            continue
        tried.append(d)
        try:
            p = svg.Path(d)
        except Exception as e:  # a conforming string must parse
            dis.append({"clause": "Raises", "detail": "%s on conforming data %r" % (type(e).__name__, d), "d": d})
            continue
        for x in compare_segs(svg, p, segs) + connectivity(p):
            x["d"] = d
            dis.append(x)
        if variant is None:
            # the same data handed to a non-empty path through extend(str) / append(str): parsed on its own, then joined -
            # the interpretation of the data (closes return to ITS sub-path starts) must be the same
            for meth in ("extend", "append"):
                try:
                    q = svg.Path("M -7,-9 L -8,-9 L -8,-7")
                    getattr(q, meth)(d)
                    tail = svg.Path()
                    tail._segments = list(q)[3:]
                except Exception as e:
                    dis.append({"clause": "Raises", "detail": "Path.%s(%r) raised %s: %s" % (meth, d, type(e).__name__, str(e)[:60]), "d": d})
                    continue
                for x in compare_segs(svg, tail, segs):
                    x["clause"] = meth + ":" + x["clause"]
                    x["detail"] += "  [Path.%s(%r) on a non-empty path]" % (meth, d)
                    x["d"] = d
                    dis.append(x)
    return {"dis": dis, "nontrivial": len(hist) >= 2, "class": classify(hist), "strings": tried,
            "checked": ["Count", "Kind", "Start", "End", "Control1", "Control2", "ArcArgs", "Connected", "CloseReturns"]}


def cases_from_dump(path, seed):
    for st in engine.read_dump(path):
        if st["hist"]:
            yield {"hist": st["hist"], "segs": st["segs"], "seed": seed}


def run(tier, seed):
    run = engine.Run("C01", tier, seed)
    work = engine.workdir("C01")
    try:
        consts = {"MaxCmds": 3, "NVar": 2} if tier == "quick" else {"MaxCmds": 4, "NVar": 1}
        res = engine.run_tlc(work, "MC_C01", constants=consts,
                             invariants=["Connected", "CloseReturns", "Count", "Reconstruct"])
        run.add_tlc(res, "PathInterp exhaustive, %s" % consts)
        n = 0
        for case, r in engine.replay("harness.c01", cases_from_dump(res["dump"], seed)):
            run.record(case, r, key=r["class"])
            if n % 1500 == 7:
                run.sample({"hist": case["hist"], "strings": r["strings"], "expected_segs": case["segs"]})
            n += 1
        # beyond the exhaustive bound: random behaviours of 8 commands (all one-step extensions of each 7-command prefix)
        sres, vals = engine.simulate_cases(work, "MC_C01", {"MaxCmds": 8, "NVar": 2}, num=(2 if tier == "quick" else 60), depth=10, seed=seed + 1)
        run.add_tlc(sres, "PathInterp by TLC -simulate: %d behaviours of 8 commands" % sres["behaviours"])
        for case, r in engine.replay("harness.c01", [{"hist": v[1], "segs": v[2], "seed": seed} for v in vals]):
            run.record(case, r, key=r["class"])
        run.extra["simulated_behaviours_replayed"] = len(vals)
        from . import c01_lex, c01_trace
        c01_lex.run_into(run, work, tier, seed)
        c01_trace.run_into(run, work, tier, seed)
    finally:
        engine.cleanup(work)
    run.rule = ("cases = all distinct states of PathInterp under TLC (each state carries its command history); "
                "non-trivial = at least 2 commands; distinct = distinct sequence of (letter, implicit, completing-z) "
                "classes; plus PathLex number-grammar strings (see lexer_* keys)")
    run.assumptions = ["Arc arguments are compared through the library's own Arc(start,rx,ry,rot,fa,fs,end) "
                       "constructor (its meaning is property C05)",
                       "coordinates are small integers (exactly representable); spellings drawn with VERIF_SEED"]
    return run.finish()


def replay_case(case):
    worker_init()
    return check_case(case)
