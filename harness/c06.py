"""C06 - basic shapes are interchangeable with their SVG 2 equivalent paths.

MC_C06 (Shapes.tla + PathOps geometry): every shape of the table x every transform class with the
geometry abstraction of its SVG 2 chapter-10 equivalent path.  Each is built by three construction
routes and decomposed by segments(), Path(shape), Path(shape.d()) and abs(); straight edges must be
exact, curved edges lie on the (mapped) ellipse in the right quarter and direction; the
interchangeability laws (==, bbox, length) are evaluated on every case."""
import math
from fractions import Fraction
from . import engine, c16

svg = None


def worker_init():
    global svg
    svg = engine.import_lib()
    c16.svg = svg


def rat(q):
    return Fraction(q[0], q[1])


def fl(q):
    return float(rat(q))


def num(fr):
    fr = Fraction(fr)
    return fr.numerator if fr.denominator == 1 else float(fr)


def radius_arg(r, as_str):
    tag, v = r
    if tag == "auto":
        return None
    if tag == "pct":
        return "%s%%" % num(rat(v))
    return str(num(rat(v))) if as_str else num(rat(v))


_TF = {}


def build(shape, route, M):
    kind, p = shape
    # one Matrix object per transform is handed to every shape built with it (keyword and dictionary routes): a shape takes
    # the value of the matrix it is given, it does not keep the caller's object
    tf = _TF.setdefault(M, svg.Matrix(*M))
    if kind == "rect":
        x, y, w, h = [num(rat(v)) for v in p[:4]]
        rx, ry = p[4], p[5]
        if route == "kwargs":
            kw = dict(x=x, y=y, width=w, height=h)
            if rx[0] != "auto":
                kw["rx"] = radius_arg(rx, False)
            if ry[0] != "auto":
                kw["ry"] = radius_arg(ry, False)
            return svg.Rect(transform=tf, **kw)
        if route == "args":
            if rx[0] == "auto" and ry[0] == "auto":
                return svg.Rect(x, y, w, h) * tf
            if ry[0] == "auto":
                return svg.Rect(x, y, w, h, radius_arg(rx, False)) * tf
            return svg.Rect(x, y, w, h, radius_arg(rx, False), radius_arg(ry, False)) * tf
        d = {"x": str(x), "y": str(y), "width": str(w), "height": str(h)}
        if rx[0] != "auto":
            d["rx"] = radius_arg(rx, True)
        if ry[0] != "auto":
            d["ry"] = radius_arg(ry, True)
        return svg.Rect(d) * tf
    if kind == "circle":
        cx, cy, r = [num(rat(v)) for v in p]
        if route == "kwargs":
            return svg.Circle(cx=cx, cy=cy, r=r, transform=tf)
        if route == "args":
            return svg.Circle(cx, cy, r) * tf
        return svg.Circle({"cx": str(cx), "cy": str(cy), "r": str(r)}) * tf
    if kind == "ellipse":
        cx, cy, rx, ry = [num(rat(v)) for v in p]
        if route == "kwargs":
            return svg.Ellipse(cx=cx, cy=cy, rx=rx, ry=ry, transform=tf)
        if route == "args":
            return svg.Ellipse(cx, cy, rx, ry) * tf
        return svg.Ellipse({"cx": str(cx), "cy": str(cy), "rx": str(rx), "ry": str(ry)}) * tf
    if kind == "line":
        a = [num(rat(v)) for v in p]
        if route == "kwargs":
            return svg.SimpleLine(x1=a[0], y1=a[1], x2=a[2], y2=a[3], transform=tf)
        if route == "args":
            return svg.SimpleLine(*a) * tf
        return svg.SimpleLine({"x1": str(a[0]), "y1": str(a[1]), "x2": str(a[2]), "y2": str(a[3])}) * tf
    cls = svg.Polyline if kind == "polyline" else svg.Polygon
    pts = [(num(rat(q[0])), num(rat(q[1]))) for q in p]
    s = " ".join("%s,%s" % q for q in pts)
    if route == "kwargs":
        return cls(points=s, transform=tf)
    if route == "args":
        # the points as tuples, as complex numbers, as Point objects or as lists (all are points to the library)
        form = (len(pts) + int(M[0] * 7 + M[4])) % 4
        conv = [lambda q: q, lambda q: complex(q[0], q[1]), lambda q: svg.Point(q[0], q[1]), lambda q: [q[0], q[1]]][form]
        return cls(*[conv(q) for q in pts]) * tf
    return cls({"points": s}) * tf


def mapped(M, q):
    a, b, c, d, e, f = M
    return (a * q[0] + c * q[1] + e, b * q[0] + d * q[1] + f)


def inverse(M):
    a, b, c, d, e, f = M
    det = a * d - b * c
    return (d / det, -b / det, -c / det, a / det, (c * f - d * e) / det, (b * e - a * f) / det)


def compare(real_geo, exp_geo, M, what):
    """real geometry (c16.geometry) against the spec's user-space geometry mapped through M"""
    dis = []
    if len(real_geo) != len(exp_geo):
        return [{"clause": "SubpathCount", "detail": "%s: %d sub-paths, expected %d" % (what, len(real_geo), len(exp_geo))}]
    Minv = inverse(M)
    det = M[0] * M[3] - M[1] * M[2]
    for (rc, rfp, redges), (ec, efp, eedges) in zip(real_geo, exp_geo):
        if rc != ec:
            dis.append({"clause": "ClosedFlag", "detail": "%s: closed=%s, expected %s" % (what, rc, ec)})
        if len(redges) != len(eedges):
            dis.append({"clause": "EdgeCount", "detail": "%s: %d edges %s, expected %d %s" % (
                what, len(redges), [type(g).__name__ for g in redges], len(eedges), [g[0] for g in eedges])})
            continue
        fp = mapped(M, (fl(efp[0]), fl(efp[1])))
        scale = max(1.0, abs(fp[0]), abs(fp[1]))
        for g in eedges:
            for q in (g[1], g[4]):
                m = mapped(M, (fl(q[0]), fl(q[1])))
                scale = max(scale, abs(m[0]), abs(m[1]))
        tol = 1e-9 * scale
        if rfp is None or abs(rfp.x - fp[0]) > tol or abs(rfp.y - fp[1]) > tol:
            dis.append({"clause": "StartPoint", "detail": "%s: starts at %r, expected %r" % (what, rfp, fp)})
        for i, (r, g) in enumerate(zip(redges, eedges)):
            s, e = mapped(M, (fl(g[1][0]), fl(g[1][1]))), mapped(M, (fl(g[4][0]), fl(g[4][1])))
            want_kind = {"L": "Line", "Q": "QuadraticBezier", "C": "CubicBezier", "A": "Arc"}[g[0]]
            if type(r).__name__ != want_kind:
                dis.append({"clause": "EdgeKind", "detail": "%s: edge %d is %s, expected %s" % (what, i, type(r).__name__, want_kind)})
                continue
            if abs(r.start.x - s[0]) > tol or abs(r.start.y - s[1]) > tol or abs(r.end.x - e[0]) > tol or abs(r.end.y - e[1]) > tol:
                dis.append({"clause": "EdgeEnds", "detail": "%s: edge %d (%s) runs %r -> %r, expected %r -> %r" % (what, i, want_kind, r.start, r.end, s, e)})
                continue
            if g[0] in ("Q", "C"):
                want = [mapped(M, (fl(c[0]), fl(c[1]))) for c in (g[2], g[3]) if c]
                got = [r.control] if g[0] == "Q" else [r.control1, r.control2]
                if any(abs(a.x - b[0]) > tol or abs(a.y - b[1]) > tol for a, b in zip(got, want)):
                    dis.append({"clause": "EdgeControls", "detail": "%s: edge %d (%s) has controls %r, expected %r" % (what, i, want_kind, got, want)})
                continue
            if g[0] == "A":
                rx, ry = fl(g[2][0]), fl(g[2][1])
                cx, cy = fl(g[5][0]), fl(g[5][1])
                th0 = math.atan2((fl(g[1][1]) - cy) / ry, (fl(g[1][0]) - cx) / rx)
                for t in (0.125, 0.5, 0.875):
                    p = r.point(t)
                    u = mapped(Minv, (p.x, p.y))
                    res = ((u[0] - cx) / rx) ** 2 + ((u[1] - cy) / ry) ** 2
                    # Path(shape.d()) went through the 6-digit radii/rotation of Arc.d() (a C07 finding), not through C06's mechanisms
                    # (6 significant digits on radii and rotation: the normalised residual moves by about 4e-5 x the aspect ratio)
                    asp = max(r.rx, r.ry) / max(min(r.rx, r.ry), 1e-300)
                    if abs(res - 1.0) > (max(2e-4, 4e-5 * asp) if "shape.d()" in what else 1e-7):
                        dis.append({"clause": "ArcOffEllipse", "detail": "%s: edge %d point(%s) = %r is off the specified ellipse (residual %.3g)" % (what, i, t, p, res - 1.0)})
                        break
                    th = math.atan2((u[1] - cy) / ry, (u[0] - cx) / rx)
                    dth = (th - th0) % (2 * math.pi)     # positive quarter: parameter angle in (0, pi/2)
                    if not (1e-6 < dth < math.pi / 2 - 1e-6):
                        dis.append({"clause": "ArcWrongQuarter", "detail": "%s: edge %d point(%s) lies at parameter angle +%.4f from the start, outside the positive quarter" % (what, i, t, dth)})
                        break
    return dis


def exactly_printable(path):
    """d() writes coordinates with 12 and (a C07 finding) arc radii/rotation with 6 significant digits: exact equality with
    Path(shape.d()) can only be demanded when every number survives that format"""
    for g in path:
        for q in g:
            if q is not None and (float("%.12G" % q.x) != q.x or float("%.12G" % q.y) != q.y):
                return False
        if isinstance(g, svg.Arc):
            for v in (g.rx, g.ry, g.get_rotation().as_degrees):
                if float("%G" % v) != v:
                    return False
    return True


def seg_path(segs):
    segs = list(segs)
    if not segs:
        return svg.Path()
    if len(segs) == 1:
        return svg.Path(segs[0])
    return svg.Path(*segs)


def transform_class(M):
    a, b, c, d, e, f = M
    if (a, b, c, d) == (1, 0, 0, 1):
        return "identity" if (e, f) == (0, 0) else "translation"
    conformal = abs(a * c + b * d) < 1e-12 and abs((a * a + b * b) - (c * c + d * d)) < 1e-12
    if conformal:
        return "similarity" if a * d - b * c > 0 else "reflection"
    if b == 0 and c == 0:
        return "axis_scale"
    return "non_conformal"


def check_case(case):
    shape, tf, geo = case["shape"], case["tf"], case["geo"]
    M = tuple(fl(v) for v in tf)
    dis = []
    tcls = transform_class(M)
    for route in ("kwargs", "args", "dict"):
        try:
            # a decoy built with the same Matrix object is realised in place first; neither the caller's matrix nor the
            # shape built next may notice
            decoy = svg.Rect(x=1, y=2, width=3, height=4, transform=_TF.setdefault(M, svg.Matrix(*M)))
            decoy.reify()
            decoy *= svg.Matrix.translate(5, 5)
            now = tuple(getattr(_TF[M], c) for c in "abcdef")
            if now != tuple(getattr(svg.Matrix(*M), c) for c in "abcdef"):
                dis.append({"clause": "SharedTransform", "route": route, "detail": "Rect(transform=m).reify() changed the caller's matrix m from %r to %r" % (M, now)})
                _TF[M] = svg.Matrix(*M)
            sh = build(shape, route, M)
        except engine.CaseTimeout:
            raise
        except Exception as e:
            dis.append({"clause": "ConstructRaises", "detail": "%s via %s raised %s: %s" % (shape, route, type(e).__name__, str(e)[:60]), "route": route})
            continue
        name = "%s(%s route) x %s" % (shape[0], route, tcls)
        forms = [("segments()", lambda: seg_path(sh.segments(transformed=True))),
                 ("Path(shape)", lambda: abs(svg.Path(sh))),
                 ("Path(shape.d())", lambda: svg.Path(sh.d())),
                 ("abs(shape)", lambda: abs(svg.Path(abs(sh)))),
                 ("Path(shape).reify()", lambda: svg.Path(sh).reify())]
        paths = {}
        for fname, mk in forms:
            try:
                p = mk()
                paths[fname] = p
                for x in compare(c16.geometry(p), geo, M, "%s %s of %s" % (name, fname, shape[1])):
                    x["form"] = fname
                    x["route"] = route
                    dis.append(x)
            except engine.CaseTimeout:
                raise
            except Exception as e:
                dis.append({"clause": "Raises", "form": fname, "route": route, "detail": "%s %s raised %s: %s" % (name, fname, type(e).__name__, str(e)[:60])})
        # untransformed decomposition = the equivalent path in user space
        try:
            for x in compare(c16.geometry(seg_path(sh.segments(transformed=False))), geo, (1.0, 0.0, 0.0, 1.0, 0.0, 0.0), "%s segments(transformed=False)" % name):
                x["form"] = "segments(False)"
                x["route"] = route
                dis.append(x)
        except Exception as e:
            dis.append({"clause": "Raises", "form": "segments(False)", "route": route, "detail": "%s raised %s" % (name, type(e).__name__)})
        # interchangeability laws
        if route == "kwargs":
            try:
                P1, P2 = svg.Path(sh), svg.Path(sh.d())
                P2.stroke_width = abs(P1).stroke_width     # d() carries no paint; == also compares the (scaled) stroke width
                if geo and not (sh == P1):
                    dis.append({"clause": "Law:shape==Path(shape)", "detail": "%s: shape != Path(shape)" % name})
                exact = exactly_printable(abs(P1))
                if geo and exact and not (P1 == P2):
                    dis.append({"clause": "Law:Path(shape)==Path(shape.d())", "detail": "%s: Path(shape) != Path(shape.d())  [d = %r]" % (name, sh.d())})
                for tr in (True, False):
                    bs = [o.bbox(transformed=tr) for o in (sh, P1)] + ([P2.bbox()] if tr else [])
                    ref = bs[0]
                    for j, b in enumerate(bs[1:]):
                        btol = 1e-9 if (exact or j == 0) else 3e-5
                        if (ref is None) != (b is None) or (ref is not None and any(abs(u - v) > btol * max(1, max(abs(w) for w in ref)) for u, v in zip(ref, b))):
                            dis.append({"clause": "Law:bbox", "detail": "%s: bbox(transformed=%s) differs between shape and path forms: %r" % (name, tr, bs)})
                            break
                if geo:
                    # Shape.length() measures the untransformed decomposition; the transformed form is measured on the reified paths
                    lu = [sh.length(error=1e-7), P1.length(error=1e-7), svg.Path(sh.d(transformed=False)).length(error=1e-7)]
                    if max(lu) - min(lu) > 1e-5 * max(1.0, max(lu)):
                        dis.append({"clause": "Law:length", "detail": "%s: untransformed lengths of shape, Path(shape), Path(shape.d(transformed=False)) differ: %r" % (name, lu)})
                    lt = [abs(P1).length(error=1e-7), P2.length(error=1e-7)]
                    if max(lt) - min(lt) > (1e-5 if exact else 1e-4) * max(1.0, max(lt)):
                        dis.append({"clause": "Law:length", "detail": "%s: transformed lengths of abs(Path(shape)) and Path(shape.d()) differ: %r" % (name, lt)})
            except engine.CaseTimeout:
                raise
            except Exception as e:
                dis.append({"clause": "Law:Raises", "detail": "%s: laws raised %s: %s" % (name, type(e).__name__, str(e)[:60])})
    round_ = any(g[0] == "A" for sp in geo for g in sp[2])
    for x in dis:
        x["shape_kind"] = shape[0]
        x["transform_class"] = tcls
        x["has_arcs"] = round_
        x["antidiagonal_reflection"] = M[0] == 0 and M[3] == 0 and M[0] * M[3] - M[1] * M[2] < 0
    return {"dis": dis, "nontrivial": bool(geo), "class": "%s:%s" % (shape[0], tcls), "checked": ["StartPoint", "EdgeEnds", "ArcOffEllipse", "ArcWrongQuarter", "Laws"]}


def cases_from_dump(path):
    for st in engine.read_dump(path):
        yield {"shape": st["shape"], "tf": st["tf"], "geo": st["geo"]}


def run(tier, seed):
    run = engine.Run("C06", tier, seed)
    work = engine.workdir("C06")
    try:
        consts = {"Full": "FALSE" if tier == "quick" else "TRUE"}
        res = engine.run_tlc(work, "MC_C06", constants=consts, invariants=["Connected", "RadiiInRange"])
        run.add_tlc(res, "Shapes x transforms, %s" % consts)
        n = 0
        for case, r in engine.replay("harness.c06", cases_from_dump(res["dump"]), chunk=40):
            run.record(case, r, key="%s%s" % (case["shape"], case["tf"]))
            if n % 200 == 5:
                run.sample(case)
            n += 1
        run.extra["exhaustive"] = True
    finally:
        engine.cleanup(work)
    run.rule = ("cases = initial states of MC_C06: shape table (rect radii given/omitted/zero/over-large/percent x sizes incl. zero; circle; ellipse; line; "
                "polyline/polygon with 0..6 points incl. repeats) x transform classes; each built by kwargs / positional / attribute-dict and decomposed 6 ways; "
                "non-trivial = the shape renders")
    run.assumptions = ["curved edges: end points within 1e-9 x size, three interior points on the specified ellipse (residual 1e-7) inside the positive quarter"]
    return run.finish()


def replay_case(case):
    worker_init()
    return check_case(case)
