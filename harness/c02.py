"""C02 - affine maps commute with geometry for every segment, path and shape.

MC_C02 (Seg.tla/Affine.tla, exact rationals): segments (lines, Beziers incl. degenerate ones, arcs
given as centre + conjugate semi-diameters + parameter interval) x histories of affine maps; img =
the image under the accumulated map (Compose, EndpointsMap, PointsMap are invariants of the spec).
The real object is multiplied step by step (new object / in place), wrapped in a path (lazy
transform + abs / reify, subpath in-place) and compared point by point; arcs by the on_param
comparator c + u cos(th) + v sin(th)."""
import math
from copy import copy
from fractions import Fraction
from . import engine

svg = None


def worker_init():
    global svg
    svg = engine.import_lib()


def rat(q):
    return Fraction(q[0], q[1])


def fpt(p):
    return (float(rat(p[0])), float(rat(p[1])))


def ang(a):
    return math.atan2(float(rat(a[1])), float(rat(a[0])))


def arc_fn(s):
    c, u, v = fpt(s[1]), fpt(s[2]), fpt(s[3])
    th0 = ang(s[4])
    ext = ang(s[5]) % (2 * math.pi)
    if ext == 0:
        ext = 2 * math.pi
    signed = s[6] * ext

    def f(t):
        th = th0 + t * signed
        return (c[0] + u[0] * math.cos(th) + v[0] * math.sin(th), c[1] + u[1] * math.cos(th) + v[1] * math.sin(th))
    return f, signed


def bez_fn(s):
    pts = [fpt(p) for p in s[1:]]

    def f(t):
        q = pts
        while len(q) > 1:
            q = [((1 - t) * a[0] + t * b[0], (1 - t) * a[1] + t * b[1]) for a, b in zip(q, q[1:])]
        return q[0]
    return f


def build(s):
    P = svg.Point
    if s[0] == "L":
        return svg.Line(P(*fpt(s[1])), P(*fpt(s[2])))
    if s[0] == "Q":
        return svg.QuadraticBezier(P(*fpt(s[1])), P(*fpt(s[2])), P(*fpt(s[3])))
    if s[0] == "C":
        return svg.CubicBezier(P(*fpt(s[1])), P(*fpt(s[2])), P(*fpt(s[3])), P(*fpt(s[4])))
    f, signed = arc_fn(s)
    c, u, v = fpt(s[1]), fpt(s[2]), fpt(s[3])
    return svg.Arc(P(*f(0.0)), P(*f(1.0)), P(*c), P(c[0] + u[0], c[1] + u[1]), P(c[0] + v[0], c[1] + v[1]), signed)


def mat(M):
    return svg.Matrix(*[float(rat(x)) for x in M])


def tclass(M):
    a, b, c, d, e, f = [float(rat(x)) for x in M]
    n1, n2 = a * a + b * b, c * c + d * d
    if abs(a * c + b * d) <= 1e-12 * max(n1, n2) and abs(n1 - n2) <= 1e-12 * max(n1, n2):
        return "conformal"
    return "non_conformal"


TS = [i / 8.0 for i in range(9)]


def npoint_agrees(seg, what, tol):
    """the vectorised form of point(): same points, in order"""
    try:
        pts = list(seg.npoint(TS))
    except Exception as e:
        return [{"clause": "PointRaises", "detail": "%s: npoint raised %s: %s" % (what, type(e).__name__, str(e)[:60])}]
    if len(pts) != len(TS):
        return [{"clause": "NPoint", "detail": "%s: npoint(%d positions) returned %d points" % (what, len(TS), len(pts))}]
    for t, q in zip(TS, pts):
        p = seg.point(t)
        if abs(q[0] - p.x) > tol or abs(q[1] - p.y) > tol:
            return [{"clause": "NPoint", "detail": "%s: npoint at %s = %r, point(%s) = %r" % (what, t, tuple(q), t, p)}]
    return []


def compare(seg, img, what, scale):
    """real segment against the spec image"""
    dis = []
    tol = 1e-9 * scale
    k = img[0]
    want_cls = {"L": "Line", "Q": "QuadraticBezier", "C": "CubicBezier", "A": "Arc"}[k]
    if type(seg).__name__ != want_cls:
        return [{"clause": "Kind", "detail": "%s is a %s, expected %s" % (what, type(seg).__name__, want_cls)}]

    def near(p, w):
        return p is not None and abs(p.x - w[0]) <= tol and abs(p.y - w[1]) <= tol
    if k == "A":
        f, signed = arc_fn(img)
        if not near(seg.start, f(0.0)) or not near(seg.end, f(1.0)):
            dis.append({"clause": "Endpoints", "detail": "%s: start/end %r %r, expected %r %r" % (what, seg.start, seg.end, f(0.0), f(1.0))})
        if not near(seg.center, fpt(img[1])):
            dis.append({"clause": "Centre", "detail": "%s: centre %r, expected %r" % (what, seg.center, fpt(img[1]))})
        for t in TS:
            try:
                p = seg.point(t)
            except Exception as e:
                dis.append({"clause": "PointRaises", "detail": "%s: point(%s) raised %s" % (what, t, type(e).__name__)})
                break
            if not near(p, f(t)):
                dis.append({"clause": "ArcPoint", "detail": "%s: point(%s) = %r, image of the original point is %r" % (what, t, p, f(t)), "t": t})
                break
        dis += npoint_agrees(seg, what, tol)
    else:
        names = {"L": ["start", "end"], "Q": ["start", "control", "end"], "C": ["start", "control1", "control2", "end"]}[k]
        for nm, w in zip(names, img[1:]):
            if not near(getattr(seg, nm), fpt(w)):
                dis.append({"clause": "DefiningPoint", "detail": "%s: %s = %r, expected %r" % (what, nm, getattr(seg, nm), fpt(w))})
        f = bez_fn(img)
        for t in TS:
            p = seg.point(t)
            if not near(p, f(t)):
                dis.append({"clause": "BezierPoint", "detail": "%s: point(%s) = %r, expected %r" % (what, t, p, f(t))})
                break
        dis += npoint_agrees(seg, what, tol)
    return dis


def check_case(case):
    obj, hist, acc, img, k = case["obj"], case["hist"], case["acc"], case["img"], case["n"] + case["seed"]
    dis = []
    pts = [fpt(p) for p in (img[1:4] if img[0] == "A" else img[1:])]
    unit = Fraction(*[int(x) for x in case["unit"].split("/")]) if "unit" in case else 1
    scale = max([float(unit)] + [abs(v) for p in pts for v in p])
    ms = [mat(M) for M in hist]
    runs = []

    def r_mul():
        x = build(obj)
        for m in ms:
            y = x * m
            if y is x:
                raise AssertionError("* returned its operand")
            x = y
        return x

    def r_imul():
        x = build(obj)
        for m in ms:
            x *= m
        return x

    def r_product():      # X * (A * B)
        x = build(obj)
        m = svg.Matrix()
        for q in ms:
            m = m * q
        return x * m

    def path_of():
        x = build(obj)
        return svg.Path(svg.Move(None, svg.Point(x.start)), x)

    def r_path_abs():
        p = path_of()
        for m in ms:
            p = p * m
        return abs(p)[1]

    def r_path_reify():
        p = path_of()
        for m in ms:
            p *= m
            if k % 2:
                p.reify()
        p.reify()
        return p[1]

    def r_incremental():   # a path assembled piece by piece (start points filled in by the path), then reified in place
        x = build(obj)
        p = svg.Path()
        p.move(svg.Point(x.start))
        x.start = None
        p.append(x)
        p.line(svg.Point(1000, 1000))
        for m in ms:
            p *= m
            p.reify()
        return p[1]

    def r_joined():        # two paths joined with +, then reified in place
        x = build(obj)
        a = svg.Path(svg.Move(None, svg.Point(-7, -7)), svg.Line(svg.Point(-7, -7), svg.Point(x.start)))
        b = svg.Path()
        x.start = None
        b.append(x)
        p = a + b
        for m in ms:
            p *= m
        p.reify()
        return p[2]

    def r_subpath():
        p = path_of()
        sp = p.subpath(0)
        for m in ms:
            sp *= m
        return p[1]

    def r_subpath_copy():   # the copying operator on a view of the SECOND sub-path
        x = build(obj)
        p = svg.Path(svg.Move(None, svg.Point(-3, -3)), svg.Line(svg.Point(-3, -3), svg.Point(-5, -4)), svg.Move(None, svg.Point(x.start)), x)
        sp = p.subpath(1)
        before = [repr(g) for g in p]
        for m in ms:
            q = sp * m
            if q is sp:
                raise AssertionError("* returned its operand")
            if [repr(g) for g in p] != before:
                raise AssertionError("subpath * M changed the path the subpath is a view of")
            sp = q
        segs = list(sp)
        if len(segs) != 2:
            raise AssertionError("subpath(1) * M has %d segments, expected 2" % len(segs))
        return segs[1]

    def r_path_matmul():    # path @ M : the copying operator that also reifies
        p = path_of()
        for m in ms:
            q = p @ m
            if q is p:
                raise AssertionError("@ returned its operand")
            p = q
        return p[1]

    def r_path_imatmul():   # path @= M
        p = path_of()
        for m in ms:
            p @= m
        return p[1]

    def r_string():       # X * "matrix(...)"
        x = build(obj)
        for M in hist:
            x = x * ("matrix(%s)" % ",".join(repr(float(rat(v))) for v in M))
        return x
    for name, fn in (("seg * M", r_mul), ("seg *= M", r_imul), ("seg * (A*B)", r_product), ("abs(path * M)[1]", r_path_abs),
                     ("path *= M; reify", r_path_reify), ("subpath *= M", r_subpath), ("subpath(1) * M", r_subpath_copy), ("path @ M", r_path_matmul), ("path @= M", r_path_imatmul), ("seg * 'matrix(..)'", r_string),
                     ("incremental path *= M; reify", r_incremental), ("(path + path) *= M; reify", r_joined)):
        try:
            s = fn()
        except engine.CaseTimeout:
            raise
        except Exception as e:
            dis.append({"clause": "Raises", "form": name, "detail": "%s raised %s: %s" % (name, type(e).__name__, str(e)[:60])})
            continue
        for x in compare(s, img, "%s over %d map(s)" % (name, len(hist)), scale):
            x["form"] = name
            dis.append(x)
    if obj[0] == "L":
        # degenerate arcs drawn as the straight line (a zero radius, SVG 1.1 F.6.2) or as a point (start = end): their image is
        # the image of that line / point
        P = svg.Point
        a, b = fpt(obj[1]), fpt(obj[2])
        ia, ib = fpt(img[1]), fpt(img[2])
        tol = 1e-9 * scale

        def deg_imul(end):
            x = svg.Arc(P(*a), 0, 7 * float(unit), 0, False, True, P(*end)) if end != a else svg.Arc(P(*a), 3 * float(unit), 7 * float(unit), 0, False, True, P(*a))
            for m in ms:
                x *= m
            return x

        def deg_path(end):
            p = svg.Path(svg.Move(None, P(*a)))
            p.arc(0 if end != a else 3 * float(unit), 7 * float(unit), 0, False, True, P(*end))
            p.line(P(1000, 1000))
            for m in ms:
                p *= m
                if k % 2:
                    p.reify()
            p.reify()
            return p[1]
        for name, fn, end, iend in (("zero-radius arc *= M", deg_imul, b, ib), ("path with a zero-radius arc *= M; reify", deg_path, b, ib),
                                    ("zero-length arc *= M", deg_imul, a, ia), ("path with a zero-length arc *= M; reify", deg_path, a, ia)):
            try:
                x = fn(end)
                got = [(t, x.point(t)) for t in (0.0, 0.25, 0.5, 1.0)]
                for t, q in got:
                    w = (ia[0] + (iend[0] - ia[0]) * t, ia[1] + (iend[1] - ia[1]) * t)
                    if q is None or abs(q.x - w[0]) > tol or abs(q.y - w[1]) > tol:
                        dis.append({"clause": "DegenerateArc", "form": name, "detail": "%s: point(%s) = %r, the image of the line's point is %r" % (name, t, q, w)})
                        break
                if abs(x.start.x - ia[0]) > tol or abs(x.start.y - ia[1]) > tol or abs(x.end.x - iend[0]) > tol or abs(x.end.y - iend[1]) > tol:
                    dis.append({"clause": "DegenerateArc", "form": name, "detail": "%s: start/end %r %r, expected %r %r" % (name, x.start, x.end, ia, iend)})
            except engine.CaseTimeout:
                raise
            except Exception as e:
                dis.append({"clause": "Raises", "form": name, "detail": "%s raised %s: %s" % (name, type(e).__name__, str(e)[:60])})
    tc = "non_conformal" if any(tclass(M) == "non_conformal" for M in hist) else "conformal"
    neg = any(float(rat(M[0])) * float(rat(M[3])) - float(rat(M[1])) * float(rat(M[2])) < 0 for M in hist)
    for x in dis:
        x["kind"] = obj[0]
        x["transform_class"] = tc
        x["reflection"] = neg
        x["detail"] += "  [object %s, maps %s]" % (obj, [[float(rat(v)) for v in M] for M in hist])
    return {"dis": dis, "nontrivial": len(hist) >= 1, "class": "%s:%s" % (obj[0], tc), "checked": ["DefiningPoint", "BezierPoint", "ArcPoint", "Centre", "Endpoints", "DegenerateArc"]}


UNITS = [(1, 1000), (12345, 1), (37, 100), (100000, 1), (1, 64)]


def scaled(case, u):
    """The same case in another unit of length (affine maps are equivariant under uniform scaling of the plane:
    points and translation parts scale by u, linear parts, angles and directions stay) - the property quantifies over
    coordinate magnitudes 1e-3..1e5."""
    un, ud = u

    def sp(p):           # point or vector [[n, d], [n, d]]
        return [[p[0][0] * un, p[0][1] * ud], [p[1][0] * un, p[1][1] * ud]]

    def sobj(o):
        if o[0] == "A":
            return [o[0], sp(o[1]), sp(o[2]), sp(o[3])] + list(o[4:])
        return [o[0]] + [sp(q) for q in o[1:]]

    def smat(M):
        return list(M[:4]) + [[M[4][0] * un, M[4][1] * ud], [M[5][0] * un, M[5][1] * ud]]
    c = dict(case)
    c["obj"], c["img"] = sobj(case["obj"]), sobj(case["img"])
    c["hist"] = [smat(M) for M in case["hist"]]
    c["acc"] = smat(case["acc"])
    c["unit"] = "%d/%d" % u
    return c


def cases_from_dump(path, seed):
    n = 0
    for st in engine.read_dump(path):
        n += 1
        if st["hist"]:
            case = {"obj": st["obj"], "hist": st["hist"], "acc": st["acc"], "img": st["img"], "n": n, "seed": seed}
            yield case
            yield scaled(case, UNITS[(n + seed) % len(UNITS)])


def run(tier, seed):
    run = engine.Run("C02", tier, seed)
    work = engine.workdir("C02")
    try:
        consts = {"Full": "FALSE", "MaxMul": 2} if tier == "quick" else {"Full": "TRUE", "MaxMul": 2}
        res = engine.run_tlc(work, "MC_C02", constants=consts, invariants=["Compose", "EndpointsMap", "PointsMap"], timeout=3000)
        run.add_tlc(res, "Seg images under map histories, %s" % consts)
        n = 0
        for case, r in engine.replay("harness.c02", cases_from_dump(res["dump"], seed), chunk=100):
            run.record(case, r, key="%s%s" % (case["obj"], case["hist"]))
            if "unit" in case:
                run.extra["cases_in_other_units"] = run.extra.get("cases_in_other_units", 0) + 1
            if n % 600 == 5:
                run.sample({k: case[k] for k in ("obj", "hist", "img")})
            n += 1
        from . import c02_shapes
        c02_shapes.run_into(run, work, tier, seed)
    finally:
        engine.cleanup(work)
    run.rule = ("cases = states of MC_C02 with >= 1 map: segment table (lines, quadratic/cubic Beziers incl. zero-length, coincident and collinear controls, "
                "circular and elliptical arcs of several rotations, extents and both directions) x sequences of <= MaxMul matrices from 13-18 classes; each by 7 "
                "API forms at 9 parameters t; plus shapes/paths (c02_shapes)")
    run.assumptions = ["tolerance 1e-9 x coordinate magnitude; arcs compared through on_param (c + u cos th + v sin th evaluated in floats from exact data)"]
    return run.finish()


def replay_case(case):
    worker_init()
    if "shape" in case:
        from . import c02_shapes
        c02_shapes.svg = svg
        return c02_shapes.check_case(case)
    return check_case(case)
