"""C04 - transform strings and Matrix algebra follow SVG/CSS transform semantics.

MC_C04 (TransformList.tla over exact rationals): mode "list" = every transform list of <= MaxLen
function instances with its denotation; mode "ops" = every history of pre_/post_ operations,
multiplications, inversions, resets on a mutable matrix.  The harness spells each list (seeded
letter case, separators, angle and length units) and compares Matrix(string) entry by entry and
Point * Matrix; ops histories are executed on a real Matrix."""
import math
import random
import zlib
from fractions import Fraction
from . import engine

svg = None
ANG = {1: (0, 1, 0), 2: (-1, 0, 0), 3: (0, -1, 0), 4: (Fraction(3, 5), Fraction(4, 5), 0), 5: (Fraction(12, 13), Fraction(-5, 13), 0),
       6: (0, 1, 1), 7: (1, 0, -1), 8: (Fraction(4, 5), Fraction(3, 5), 0), 9: (Fraction(5, 13), Fraction(12, 13), -1)}


def worker_init():
    global svg
    svg = engine.import_lib()


def rat(q):
    return Fraction(q[0], q[1])


def degrees(i):
    c, s, k = ANG[i]
    return math.degrees(math.atan2(float(s), float(c))) + 360.0 * k


def num_str(fr, rng):
    if fr.denominator == 1:
        n = fr.numerator
        if rng is None:
            return str(n)
        return rng.choice([str(n), "%d.0" % n, "%de0" % n, ("+%d" % n) if n >= 0 else str(n)])
    return repr(float(fr))


def length_str(fr, rng):
    """a length in user units, optionally with an exactly convertible CSS unit (ppi = 96)"""
    if rng is not None and rng.random() < 0.5:
        r = rng.random()
        if r < 0.3:
            return num_str(fr, rng) + "px"
        if fr.denominator == 1 and fr.numerator % 96 == 0 and r < 0.55:
            return "%din" % (fr.numerator // 96)
        if fr.denominator == 1 and fr.numerator % 16 == 0 and r < 0.8:
            return "%dpc" % (fr.numerator // 16)
        if fr.denominator == 1 and fr.numerator % 4 == 0:
            return "%dpt" % (fr.numerator // 4 * 3)
    return num_str(fr, rng)


def angle_str(i, rng):
    d = degrees(i)
    if rng is None:
        return repr(d)
    u = rng.choice(["", "deg", "grad", "rad", "turn"])
    if u in ("", "deg"):
        return repr(d) + u
    if u == "grad":
        return repr(d * 400.0 / 360.0) + "grad"
    if u == "rad":
        return repr(math.radians(d)) + "rad"
    return repr(d / 360.0) + "turn"


CSSNAME = {"translatex": "translateX", "translatey": "translateY", "scalex": "scaleX", "scaley": "scaleY", "skewx": "skewX", "skewy": "skewY"}


def unit_case(s, rng):
    """CSS unit identifiers are ASCII case-insensitive"""
    if rng is None or rng.random() < 0.6:
        return s
    i = len(s)
    while i > 0 and s[i - 1].isalpha():
        i -= 1
    if s[:i].lower().endswith("e") or i == len(s):
        return s
    u = s[i:]
    return s[:i] + rng.choice([u.upper(), u.capitalize(), u[:-1] + u[-1].upper()])


def func_str(f, rng):
    name, nums, angs = f
    nums = [rat(n) for n in nums]
    args = []
    if name in ("translate", "translatex", "translatey"):
        args = [length_str(n, rng) for n in nums]
    elif name in ("matrix", "scale", "scalex", "scaley"):
        args = [num_str(n, rng) for n in nums]
    elif name == "rotate":
        args = [angle_str(angs[0], rng)] + [length_str(n, rng) for n in nums]
    else:
        args = [angle_str(a, rng) for a in angs]
    nm = CSSNAME.get(name, name)
    args = [unit_case(a, rng) for a in args]
    if rng is not None:
        nm = rng.choice([nm, nm.lower(), nm.upper(), nm])
        sep = rng.choice([",", " ", " , ", ", ", "  "])
        pre = rng.choice(["", " ", ""])
        inner = rng.choice(["", " "])
    else:
        sep, pre, inner = ",", "", ""
    return "%s%s(%s%s%s)" % (nm, pre, inner, sep.join(args), inner)


def list_str(hist, rng):
    sep = " " if rng is None else rng.choice([" ", "", ", ", "\n", "  "])
    return sep.join(func_str(f, rng) for f in hist)


def cmp_matrix(m, val, what):
    dis = []
    for k, v in zip("abcdef", val):
        want = float(rat(v))
        got = getattr(m, k)
        try:
            got = float(got)
        except Exception:
            dis.append({"clause": "Entry", "detail": "%s: entry %s is %r" % (what, k, got)})
            continue
        if abs(got - want) > 1e-11 * max(1.0, abs(want)):
            dis.append({"clause": "Entry", "detail": "%s: %s = %r, expected %s = %r" % (what, k, got, rat(v), want)})
            break
    return dis


def angle_obj(i):
    return svg.Angle.degrees(degrees(i))


ID6 = [[1, 1], [0, 1], [0, 1], [1, 1], [0, 1], [0, 1]]


def identity_test(m, val, what):
    """is_identity() holds exactly for the neutral element (decided where the specification's value is exactly
    representable: entries that are integers or dyadic)"""
    exact = all(v[1] in (1, 2, 4, 8) for v in val)
    want = [list(v) for v in val] == ID6
    try:
        got = m.is_identity()
    except Exception as e:
        return [{"clause": "Identity", "detail": "%s: is_identity() raised %s" % (what, type(e).__name__)}]
    ent = (m.a, m.b, m.c, m.d, m.e, m.f)
    if want and ent == (1, 0, 0, 1, 0, 0) and not got:
        return [{"clause": "Identity", "detail": "%s: is_identity() = False on the matrix %r" % (what, ent)}]
    if exact and not want and got and max(abs(x - y) for x, y in zip(ent, (1, 0, 0, 1, 0, 0))) > 1e-9:
        return [{"clause": "Identity", "detail": "%s: is_identity() = True, the value is %s" % (what, [float(rat(v)) for v in val])}]
    return []


def apply_op(m, op, f, alt):
    if op in ("pre", "post"):
        name, nums, angs = f
        n = [float(rat(x)) for x in nums]
        meth = {"translate": "translate", "translatex": "translate_x", "translatey": "translate_y", "scale": "scale", "scalex": "scale_x",
                "scaley": "scale_y", "rotate": "rotate", "skew": "skew", "skewx": "skew_x", "skewy": "skew_y", "scale_at": "scale",
                "skewx_at": "skew_x", "skewy_at": "skew_y"}[name]
        args = [angle_obj(a) for a in angs] + n
        if alt == 2 and not name.endswith("_at") and not (name == "rotate" and n):
            # the elementary matrix from the class constructor, composed by multiplication (A * B = A first, then B)
            e = getattr(svg.Matrix, meth)(*args)
            return e * m if op == "pre" else m * e
        getattr(m, op + "_" + meth)(*args)
        return m
    vals = [float(rat(x)) for x in f[1]] if f else []
    if op == "pre_cat":
        m.pre_cat(*vals)
    elif op == "post_cat":
        m.post_cat(*vals)
    elif op == "mul_right":
        if alt == 2:
            m = m @ svg.Matrix(*vals)
        elif alt == 3:         # the right operand given as text: M * "matrix(...)" is M * Matrix("matrix(...)")
            m = m * ("matrix(%s)" % ",".join(repr(v) for v in vals))
        elif alt == 4:
            m *= "matrix(%s)" % " ".join(repr(v) for v in vals)
        elif alt:
            m *= svg.Matrix(*vals)
        else:
            m = m * svg.Matrix(*vals)
    elif op == "mul_left":
        if alt == 2:
            n = svg.Matrix(*vals)
            n @= m
            m = n
        else:
            m = svg.Matrix(*vals) * m
    elif op == "invert":
        if alt:
            m.inverse()
        else:
            m = ~m
    elif op == "reset":
        m.reset()
    return m


def check_case(case):
    mode, hist, val, img, seed = case["mode"], case["hist"], case["val"], case["img"], case["seed"]
    dis = []
    px, py = float(rat(img[0])), float(rat(img[1]))
    if mode == "list":
        strings = []
        for variant in (None, seed, seed + 1):
            rng = None if variant is None else random.Random(variant ^ zlib.crc32(repr(hist).encode()))
            s = list_str(hist, rng)
            if s in strings:
                continue
            strings.append(s)
            # the denotation of a string depends on the string and on the context it is given, not on what was parsed before:
            # the same text is parsed first without a context and with another ppi (errors of those parses are not this clause's)
            for kw0 in ({}, {"ppi": 72.0}):
                try:
                    svg.Matrix(s, **kw0)
                except engine.CaseTimeout:
                    raise
                except Exception:
                    pass
            try:
                m = svg.Matrix(s, ppi=96.0)
            except engine.CaseTimeout:
                raise
            except Exception as e:
                dis.append({"clause": "Raises", "detail": "Matrix(%r) raised %s: %s" % (s, type(e).__name__, str(e)[:60]), "string": s})
                continue
            d = cmp_matrix(m, val, "Matrix(%r)" % s)
            d += identity_test(m, val, "Matrix(%r)" % s)
            if not d:
                p = svg.Point(3, -7) * m
                if abs(p.x - px) > 1e-9 * max(1, abs(px)) or abs(p.y - py) > 1e-9 * max(1, abs(py)):
                    d.append({"clause": "PointImage", "detail": "Point(3,-7) * Matrix(%r) = %r, expected (%r, %r)" % (s, p, px, py)})
                import re
                q = svg.Point(3, -7) * s if not re.search(r"\d(in|pc|pt)", s.lower()) else p
                if abs(q.x - px) > 1e-9 * max(1, abs(px)) or abs(q.y - py) > 1e-9 * max(1, abs(py)):
                    d.append({"clause": "PointImageStr", "detail": "Point(3,-7) * %r = %r, expected (%r, %r)" % (s, q, px, py)})
            for x in d:
                x["string"] = s
            dis += d
        import re
        for x in dis:
            x["physical_unit"] = bool(re.search(r"\d(in|pc|pt)", x.get("string", "").lower()))
            x["nfuncs"] = len(hist)
        names = [f[0] + str(len(f[1]) + len(f[2])) for f in hist]
        cls = "list:" + ">".join(names)
        for x in dis:
            x["functions"] = names
    else:
        for alt in (False, True, 2, 3, 4):
            if alt in (3, 4) and not any(op == "mul_right" for op, f in hist):
                continue
            try:
                m = svg.Matrix()
                for op, f in hist:
                    m = apply_op(m, op, f, alt)
            except engine.CaseTimeout:
                raise
            except Exception as e:
                dis.append({"clause": "Raises", "detail": "ops %s raised %s: %s" % (hist, type(e).__name__, str(e)[:60])})
                continue
            d = cmp_matrix(m, val, "ops %s" % ([(o, f[0] if f else "") for o, f in hist],))
            d += identity_test(m, val, "ops %s" % ([(o, f[0] if f else "") for o, f in hist],))
            try:
                d += point_checks(m, d, hist, px, py, alt)
            except engine.CaseTimeout:
                raise
            except Exception as e:
                d.append({"clause": "Raises", "detail": "applying the matrix after %s raised %s: %s" % (hist, type(e).__name__, str(e)[:60])})
            dis += d
        cls = "ops:" + ">".join("%s_%s" % (o, f[0] if f else "") for o, f in hist)
        for x in dis:
            x["ops"] = [o + ("_" + f[0] if f else "") for o, f in hist]
    return {"dis": dis, "nontrivial": len(hist) >= 2, "class": cls, "checked": ["Entry", "PointImage"]}


def point_checks(m, d0, hist, px, py, alt):
    d = []
    if True:
        if True:
            if not d0:
                p = svg.Point(3, -7) * m
                if abs(p.x - px) > 1e-9 * max(1, abs(px)) or abs(p.y - py) > 1e-9 * max(1, abs(py)):
                    d.append({"clause": "PointImage", "detail": "Point(3,-7) * M after %s = %r, expected (%r, %r)" % (hist, p, px, py)})
                if alt == 2:
                    # the other ways of applying a matrix to a point, and back through the inverse
                    tol = 1e-9 * max(1, abs(px), abs(py))
                    for nm, q in (("point_in_matrix_space", m.point_in_matrix_space((3, -7))), ("transform_point", m.transform_point([3, -7])),
                                  ("Point *= M", svg.Point(3, -7).__imul__(m))):
                        if abs(q[0] - px) > tol or abs(q[1] - py) > tol:
                            d.append({"clause": "PointImage", "detail": "%s after %s = %r, expected (%r, %r)" % (nm, hist, q, px, py)})
                    det = m.a * m.d - m.b * m.c
                    if abs(det) > 1e-6:
                        q = m.point_in_inverse_space((px, py))
                        if abs(q[0] - 3) > 1e-7 * max(1, abs(px), abs(py)) / abs(det) or abs(q[1] + 7) > 1e-7 * max(1, abs(px), abs(py)) / abs(det):
                            d.append({"clause": "PointImage", "detail": "point_in_inverse_space of the image after %s = %r, expected (3, -7)" % (hist, q)})
    return d


def cases_from_dump(path, seed):
    for st in engine.read_dump(path):
        if st["hist"]:
            yield {"mode": st["mode"], "hist": st["hist"], "val": st["val"], "img": st["img"], "seed": seed}


def run(tier, seed):
    run = engine.Run("C04", tier, seed)
    work = engine.workdir("C04")
    try:
        consts = {"MaxLen": 3, "Full": "FALSE"} if tier == "quick" else {"MaxLen": 3, "Full": "TRUE"}
        res = engine.run_tlc(work, "MC_C04", constants=consts,
                             invariants=["ListIsDenotation", "InverseTwoSided", "IdNeutral", "PointApplication"], timeout=3000)
        run.add_tlc(res, "TransformList lists + Matrix operation histories, %s" % consts)
        n = 0
        for case, r in engine.replay("harness.c04", cases_from_dump(res["dump"], seed), chunk=300):
            run.record(case, r, key=r["class"])
            if n % 9000 == 7:
                run.sample({"mode": case["mode"], "hist": case["hist"], "expected_matrix": case["val"]})
            n += 1
        # beyond the exhaustive bound: lists / operation histories of 8 entries
        sim = []
        for part in range(1 if tier == "quick" else 10):       # several short runs: a 32-bit overflow in the exact arithmetic ends only one of them
            sres, vals = engine.simulate_cases(work, "MC_C04", {"MaxLen": 8, "Full": "TRUE"}, num=(2 if tier == "quick" else 8), depth=10,
                                               seed=seed + 1 + 1000 * part)
            run.add_tlc(sres, "TransformList lists and Matrix histories of length 8 by TLC -simulate (%d behaviours)" % sres["behaviours"])
            sim += [{"mode": v[1], "hist": v[2], "val": v[3], "img": v[4], "seed": seed} for v in vals]
        for case, r in engine.replay("harness.c04", sim, chunk=300):
            run.record(case, r, key=r["class"])
        run.extra["simulated_histories_replayed"] = len(sim)
    finally:
        engine.cleanup(work)
    run.rule = ("cases = states of MC_C04: transform lists (<= MaxLen functions from the instance table, 3 spellings each: canonical + 2 seeded) "
                "and Matrix operation histories (3 API variants each: in-place pre_/post_ methods, operators, class constructors composed by multiplication); distinct = sequence of (function name, arity) / operations; non-trivial = length >= 2")
    run.assumptions = ["angles are given by exact (cos, sin); their decimal spelling carries ~1e-16 relative error, tolerance 1e-11",
                       "length units limited to px/in/pt/pc at ppi 96 (mm/cm belong to C12)"]
    return run.finish()


def replay_case(case):
    worker_init()
    return check_case(case)
