"""C09 - path-data parsing is total.

MC_C09: conforming behaviours of PathInterp, one injected token fault each, interpreted by the
total token machine PathTok (TLA+).  Each final state = (tape, expected status, retained segs).
The real parser must: raise nothing but ValueError; retain at least the spec's segments (exactly
them when the tape conforms); leave a path on which d(), bbox(), length(), transforms work."""
import math
from . import engine
from .pathutil import compare_segs, project

svg = None
CASE_TIMEOUT = 30.0
JUNK = ["x", "#", "é", "\x01", "..", "-", "+", "e5", "N", "−" "1", "\U0001F600", "1e", "0x10"]


def worker_init():
    global svg
    svg = engine.import_lib()


def tape_to_string(tape, salt=0):
    out = []
    for i, t in enumerate(tape):
        if t[0] == "c":
            out.append(t[1])
        elif t[0] == "n":
            out.append(str(t[1]))
        else:
            j = JUNK[(t[1] + i + salt) % len(JUNK)]
            out.append(j)
    return " ".join(out)


def numeric_point(p):
    try:
        return p is not None and isinstance(p.x, (int, float)) and isinstance(p.y, (int, float)) \
            and math.isfinite(p.x) and math.isfinite(p.y)
    except OverflowError:          # an int beyond the float range is not a coordinate one can compute with
        return False


def soundness(p):
    dis = []
    for i, seg in enumerate(p):
        name = type(seg).__name__
        pts = [("end", seg.end)]
        if not (i == 0 or name == "Move"):
            pts.append(("start", seg.start))
        if name == "QuadraticBezier":
            pts.append(("control", seg.control))
        if name == "CubicBezier":
            pts += [("control1", seg.control1), ("control2", seg.control2)]
        if name == "Arc":
            pts += [("center", seg.center), ("prx", seg.prx), ("pry", seg.pry)]
            if not isinstance(seg.sweep, (int, float)) or not math.isfinite(seg.sweep):
                dis.append({"clause": "NonNumeric", "detail": "segment %d Arc.sweep=%r" % (i, seg.sweep)})
        for nm, q in pts:
            if not numeric_point(q):
                dis.append({"clause": "NonNumeric", "detail": "segment %d %s.%s = %r" % (i, name, nm, q)})
    ops = [("d", lambda: p.d()), ("d_rel", lambda: p.d(relative=True)), ("d_abs_smooth", lambda: p.d(relative=False, smooth=True)),
           ("bbox", lambda: p.bbox()),
           ("length", lambda: p.length(error=1e-4)), ("abs_mul", lambda: abs(p * svg.Matrix("rotate(30) scale(2,3)"))),
           ("mul_str", lambda: (p * "translate(1,2)").d()), ("reparse", lambda: svg.Path(p.d())),
           ("point", lambda: p.point(0.5, error=1e-4) if len(p) else None), ("reverse", lambda: svg.Path(p).reverse() if False else None)]
    for nm, op in ops:
        try:
            op()
        except engine.CaseTimeout:
            raise
        except Exception as e:
            dis.append({"clause": "AfterOp", "detail": "%s() raised %s: %s" % (nm, type(e).__name__, str(e)[:80]), "op": nm, "exc": type(e).__name__})
    return dis


def check_string(s, status, segs):
    dis = []
    p = svg.Path()
    exc = None
    try:
        p.parse(s)
    except ValueError:
        exc = "ValueError"
    except engine.CaseTimeout:
        raise
    except BaseException as e:
        exc = type(e).__name__
        dis.append({"clause": "Totality", "detail": "parse raised %s: %s" % (exc, str(e)[:80]), "exc": exc})
    # Path(s) must behave the same way
    try:
        svg.Path(s)
    except ValueError:
        pass
    except engine.CaseTimeout:
        raise
    except BaseException as e:
        if exc != type(e).__name__:
            dis.append({"clause": "Totality", "detail": "Path(s) raised %s: %s" % (type(e).__name__, str(e)[:80]), "exc": type(e).__name__})
    got = list(p)
    if status == "ok":
        if exc == "ValueError":
            dis.append({"clause": "RejectsConforming", "detail": "ValueError on conforming data"})
        for x in compare_segs(svg, p, segs):
            x["clause"] = "Conforming:" + x["clause"]
            dis.append(x)
    else:
        if len(got) < len(segs):
            dis.append({"clause": "PrefixLost", "detail": "valid prefix has %d segments %s, %d retained %s" % (
                len(segs), "".join(g[0] for g in segs), len(got), "".join(g[0] for g in project(p)))})
        else:
            head = svg.Path()
            head._segments = got[:len(segs)]
            for x in compare_segs(svg, head, segs):
                x["clause"] = "Prefix:" + x["clause"]
                dis.append(x)
    dis += soundness(p)
    # every other public entry point that takes path data as a string is total in the same sense
    for name, fn in (("insert", lambda q: q.insert(1, s)), ("append", lambda q: q.append(s)), ("extend", lambda q: q.extend(s)),
                     ("setitem", lambda q: q.__setitem__(1, s)), ("iadd", lambda q: q.__iadd__(s)), ("add", lambda q: q + s),
                     ("radd", lambda q: s + q)):
        q = svg.Path("M 1,1 L 2,3 L 4,1")
        try:
            fn(q)
        except ValueError:
            pass
        except engine.CaseTimeout:
            raise
        except BaseException as e:
            dis.append({"clause": "Totality", "entry": name, "exc": type(e).__name__,
                        "detail": "Path.%s with the data raised %s: %s" % (name, type(e).__name__, str(e)[:60])})
    for d in dis:
        d["s"] = s
        d["detail"] += "  [data %r]" % s
    return dis


POISON = ["M0,0 L 20 Z", "M0,0 z 3", "M 1 1 c 1 2 3 4 z 5", "M0,0 A 1 z", "M0,0 q 1 z", "M 1 1 t 5", "M0,0 h", "x", "M1,1 l 2 2 z"]


def outcome(s):
    p = svg.Path()
    try:
        p.parse(s)
        exc = None
    except engine.CaseTimeout:
        raise
    except BaseException as e:
        exc = type(e).__name__
    return [exc, project(p)]


def check_truncations(s, segs):
    """Conforming data cut at EVERY character position (a number may be cut in two, so the last retained segment may
    differ): the parse returns or raises ValueError, what is retained is numeric and - up to its last segment - a
    prefix of the full interpretation, and the follow-up operations work."""
    dis = []
    for cut in range(len(s)):
        t = s[:cut]
        p = svg.Path()
        try:
            p.parse(t)
        except ValueError:
            pass
        except engine.CaseTimeout:
            raise
        except BaseException as e:
            dis.append({"clause": "Totality", "detail": "parse raised %s: %s  [data %r = %r cut at %d]" % (type(e).__name__, str(e)[:60], t, s, cut),
                        "exc": type(e).__name__, "s": t})
            continue
        got = list(p)
        n = max(0, min(len(got), len(segs)) - 1)
        if len(got) > len(segs):
            dis.append({"clause": "Truncation:Count", "detail": "%r (cut of %r) has %d segments, the whole has %d" % (t, s, len(got), len(segs)), "s": t})
        elif n:
            head = svg.Path()
            head._segments = got[:n]
            for x in compare_segs(svg, head, segs[:n]):
                x["clause"] = "Truncation:" + x["clause"]
                x["detail"] += "  [data %r cut from %r]" % (t, s)
                x["s"] = t
                dis.append(x)
        for x in soundness(p):
            x["s"] = t
            x["detail"] += "  [data %r cut from %r]" % (t, s)
            dis.append(x)
    return dis


def check_case(case):
    tape, status, segs = case["tape"], case["status"], case["segs"]
    s = tape_to_string(tape, case.get("salt", 0))
    dis = check_string(s, status, segs)
    if case["edit"][0] == "none" and status == "ok":
        dis += check_truncations(s, segs)
    # the same tape in a decimal unit (1e-7, 0.1, 1234.5678): the grammar does not care about magnitudes, and what is
    # retained must be as usable as with small integers (arc groups are left out: their flags are numbers too)
    if not any(t[0] == "c" and t[1] in "aA" for t in tape):
        u = (1e-7, 0.1, 1234.5678, 1.1)[(len(tape) + case.get("salt", 0)) % 4]
        s2 = " ".join(t[1] if t[0] == "c" else (repr(t[1] * u) if t[0] == "n" else JUNK[(t[1] + i + case.get("salt", 0)) % len(JUNK)]) for i, t in enumerate(tape))
        for d in check_string(s2, "unknown", []):
            if d["clause"] in ("Totality", "NonNumeric", "AfterOp"):
                d["unit"] = u
                dis.append(d)
    # the specification's parser is a function of the tape alone: the outcome must not depend on
    # what was parsed before (history of parses = a poisoned parse, then the same data again)
    o1 = outcome(s)
    for k in range(2):
        poison = POISON[(len(tape) + case.get("salt", 0) + 4 * k) % len(POISON)]
        try:
            svg.Path(poison)
        except Exception:
            pass
        o2 = outcome(s)
        if o1 != o2:
            dis.append({"clause": "HistoryDependent", "detail": "parsing %r gives %s, but after parsing %r it gives %s" % (s, o1, poison, o2)})
            break
    swm = bool(tape) and tape[0][0] == "c" and tape[0][1] in ("M", "m")
    for d in dis:
        d["starts_with_move"] = swm
    cls = "%s:%s" % (status, case["edit"][0])
    return {"dis": dis, "nontrivial": case["edit"][0] != "none", "class": cls, "string": s,
            "checked": ["Totality", "Prefix", "NonNumeric", "AfterOp"]}


def cases_from_dump(path, seed):
    seen = set()
    for st in engine.read_dump(path):
        if st["phase"] != "done":
            continue
        key = engine.py_to_tla(st["tape"])
        if key in seen:
            continue
        seen.add(key)
        yield {"tape": st["tape"], "status": st["ts"][0], "segs": st["ts"][4][4], "edit": st["edit"], "salt": seed}


def long_inputs(tier):
    n = 20000 if tier == "quick" else 100000
    yield "M0,0" + "l1,1" * n, "conforming %d lines" % n
    yield "M0,0" + " c1,1 2,2 3,0 s1,1 2,0" * (n // 4) + " 5", "curves then a dangling number"
    yield "M0,0 " + "1,1 " * n + "x", "implicit lines then junk"
    yield "M0,0" + "z" * n, "many closes"
    yield " " * (5 * n) + "M1,1", "leading white space"
    yield "M0,0L" + "1" * n, "one very long number"
    yield "M0,0a" + "1,1 0 0 1 1,1 " * (n // 10) + "1", "arcs then truncated group"
    yield "M0,0h" + "-" * n, "run of signs"
    yield "M0,0 L" + "." * n, "run of dots"
    yield "M0,0 L" + "1e" * n, "run of 1e"


EXTREME = ["M1,1 a 1e-200 5 0 0 1 4,4", "M0,0 L1e999,5", "M0,0 L1e-400,5", "M 1e308 1e308 l 1e308 1e308", "M0,0 A 1e200 1e200 0 0 1 5 5",
           "M0,0 A 1e-200 1e-200 0 0 1 5 5", "M0,0 A 1e-160 1e-160 0 0 1 5 5", "M0,0 C 1e308,1e308 -1e308,-1e308 5,5", "M0,0 A 5 5 1e999 0 1 5 5",
           "M0,0 a 1e155 1e155 0 0 1 1e155 1e155", "M0,0 L-1e999,1e999 z", "M0,0 h1e999 v-1e999", "M0,0 Q 1e200,1e200 1e-200,1e-200", "M0,0 A 3 1e-170 0 0 1 5 5",
           "M 1e-320 1e-320 L 2e-320 0", "M0,0 S 1e999 1 2 3", "M0,0 T inf 3", "M0,0 L nan nan", "M0,0 L 1e+ 5",
           # whole-number literals of 320 and 400 digits (beyond the float range without an exponent or a decimal point)
           "M0.5,0.5 l " + "9" * 320 + " 1", "M0,0 L " + "1" + "0" * 400 + " 5 L 1,1", "M0,0 A " + "7" * 400 + " 5 0 0 1 5 5", "M0.5,0 h " + "1" * 400]


def check_extreme(s):
    """numbers at the edge of the float range: totality as for every string; what is retained must still be finite"""
    try:
        dis = check_string(s, "unknown", [])
    except engine.CaseTimeout:
        raise
    except Exception as e:
        # (even printing what was retained may fail when a coordinate is an int beyond the float range)
        dis = [{"clause": "Totality", "detail": "Path(%r...) left an object on which %s is raised: %s" % (s[:40], type(e).__name__, str(e)[:80])}]
    for d in dis:
        d["extreme_magnitude"] = True
    return [d for d in dis if d["clause"] not in ("PrefixLost",)]


def run(tier, seed):
    run = engine.Run("C09", tier, seed)
    work = engine.workdir("C09")
    try:
        if tier == "quick":
            consts = {"MaxCmds": 2, "NVar": 1, "Stepwise": "TRUE", "NRepl": 12, "MinCmds": 1}
            props = ["PROPERTY Frozen", "PROPERTY AppendOnly"]
        else:
            consts = {"MaxCmds": 3, "NVar": 1, "Stepwise": "FALSE", "NRepl": 6, "MinCmds": 1}
            props = []
        res = engine.run_tlc(work, "MC_C09", constants=consts, init="InitT", deadlock=True,
                             invariants=["AgreesOnConforming", "NumericSegs", "NoFaultOk"], cfg_extra=props)
        run.add_tlc(res, "PathInterp behaviours x single token faults -> PathTok, %s" % consts)
        byclass = {}
        n = 0
        for case, r in engine.replay("harness.c09", cases_from_dump(res["dump"], seed), chunk=500):
            run.record(case, r, key=r["string"])
            byclass[r["class"]] = byclass.get(r["class"], 0) + 1
            if n % 4000 == 17:
                run.sample({"data": r["string"], "edit": case["edit"], "expected_status": case["status"], "retained_segs": case["segs"]})
            n += 1
        # beyond the exhaustive bound: behaviours of 4..6 commands, every single-token fault of each prefix visited
        sres, vals = engine.simulate_cases(work, "MC_C09", {"MaxCmds": 6, "NVar": 2, "Stepwise": "FALSE", "NRepl": 12, "MinCmds": 4},
                                           num=(1 if tier == "quick" else 12), depth=9, seed=seed + 1, init="InitT")
        run.add_tlc(sres, "PathTok on faulted tapes of 4-6 commands by TLC -simulate (%d behaviours)" % sres["behaviours"])
        seen = set()
        sim = []
        for v in vals:
            key = engine.py_to_tla(v[1])
            if key not in seen:
                seen.add(key)
                sim.append({"tape": v[1], "status": v[2], "segs": v[3], "edit": v[4], "salt": seed})
        for case, r in engine.replay("harness.c09", sim, chunk=500):
            run.record(case, r, key=r["string"])
            byclass["sim:" + r["class"]] = byclass.get("sim:" + r["class"], 0) + 1
        run.extra["simulated_tapes_replayed"] = len(sim)
        run.extra["cases_by_status_and_edit"] = byclass
        # promptness on very long inputs (time must stay proportional; generous bound)
        import time
        worker_init()
        timing = []
        for s, what in long_inputs(tier):
            t0 = time.time()
            case = {"long": what, "len": len(s)}
            try:
                engine.arm(60.0)
                try:
                    p = svg.Path()
                    try:
                        p.parse(s)
                        r = []
                    except ValueError:
                        r = []
                    except engine.CaseTimeout:
                        raise
                    except BaseException as e:
                        r = [{"clause": "Totality", "detail": "long input (%s): %s" % (what, type(e).__name__), "exc": type(e).__name__}]
                finally:
                    engine.disarm()
            except engine.CaseTimeout:
                r = [{"clause": "Timeout", "detail": "long input (%s, %d chars) not parsed within 60 s of CPU time" % (what, len(s))}]
            dt = time.time() - t0
            timing.append({"what": what, "chars": len(s), "seconds": round(dt, 3)})
            run.record(case, {"dis": r, "nontrivial": True, "class": "long", "checked": ["Prompt"]}, key="long:" + what)
        run.extra["long_input_timing"] = timing
        for s_ in EXTREME:
            run.record({"extreme": s_}, {"dis": check_extreme(s_), "nontrivial": True, "class": "extreme", "checked": ["Totality", "NonNumeric", "AfterOp"]}, key="extreme:" + s_)
    finally:
        engine.cleanup(work)
    run.rule = ("cases = distinct token tapes of MC_C09 final states (conforming behaviour + one token fault), spelled with single "
                "spaces, junk tokens drawn from a 13-entry table by VERIF_SEED; non-trivial = a fault was injected; plus 10 very long inputs")
    run.assumptions = ["segments beyond the spec's valid prefix (lenient parsing) are allowed but must be numerically sound",
                       "'promptly' is checked as: every case < 30 s, 1e5-command inputs < 60 s"]
    return run.finish()


def replay_case(case):
    worker_init()
    if "long" in case:
        return {"dis": []}
    return check_case(case)
