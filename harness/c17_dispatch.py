from .c17 import worker_init, dispatch as check_case  # noqa
