"""C11 - the viewport transform equals the SVG 2 section 8.2 'equivalent transform'.

MC_C11 (Viewport.tla, exact rationals): every align x meetOrSlice cell x element/viewBox sizes and
origins with the expected (sx, sy, tx, ty); Hence (inside/covers/touches/aligned) is an invariant
of the specification.  The real library is driven through every way of obtaining the transform:
the static function, Viewbox.transform(element), a nested <svg> and a root <svg> whose size is
supplied by attributes (numbers, units, percentages), by the caller or by default."""
import io
import types
from fractions import Fraction
from . import engine

svg = None


def worker_init():
    global svg
    svg = engine.import_lib()


def rat(q):
    return Fraction(q[0], q[1])


def fl(q):
    return float(rat(q))


def s(fr):
    fr = Fraction(fr)
    return str(fr.numerator) if fr.denominator == 1 else repr(float(fr))


def par(align, mos, k=0):
    """preserveAspectRatio = [wsp] align [wsp+ meetOrSlice] [wsp]: white space around and between the two words varies"""
    v = k % 4
    if mos == "":
        return (align, " " + align, align + " ", align)[v]
    return (align + " " + mos, align + "  " + mos, " " + align + " " + mos + " ", align + "\t" + mos)[v]


def cmp_matrix(m, exp, what, scale_ref):
    sx, sy, tx, ty = [fl(x) for x in exp]
    got = (m.a, m.d, m.e, m.f)
    want = (sx, sy, tx, ty)
    dis = []
    if abs(m.b) > 1e-12 or abs(m.c) > 1e-12:
        dis.append({"clause": "Shear", "detail": "%s has b=%r c=%r" % (what, m.b, m.c)})
    for nm, g, w in zip(("scale-x", "scale-y", "translate-x", "translate-y"), got, want):
        # (the transform is handed over as text with 12 decimals: half a unit of the last place is the precision it can carry)
        tol = 1e-9 * max(abs(w), 1e-300) + 6e-13 if nm.startswith("scale") else 1e-9 * max(1.0, abs(w), scale_ref)
        if abs(g - w) > tol:
            dis.append({"clause": "Transform", "component": nm, "rel_err": abs(g - w) / max(abs(w), 1e-300),
                        "abs_err": abs(g - w), "expected_value": w,
                        "detail": "%s: %s = %r, expected %r" % (what, nm, g, w)})
    return dis


def unit_len(fr, k):
    """spell a length in user units with a CSS unit when that is exact at ppi 96"""
    fr = Fraction(fr)
    opts = [s(fr), s(fr) + "px"]
    if fr.denominator == 1 and fr.numerator % 48 == 0:
        opts += ["%sin" % s(fr / 96), "%spt" % s(fr * 3 / 4), "%spc" % s(fr / 16)]
    return opts[k % len(opts)]


def doc_shapes(doc, **kw):
    d = svg.SVG.parse(io.StringIO(doc), **kw)
    return d, [x for x in d.elements() if isinstance(x, svg.Shape)]


def check_image(shape, e, vb, exp, what):
    """the rect that fills the viewBox must land on the spec's image of the viewBox"""
    sx, sy, tx, ty = [fl(x) for x in exp]
    x0, y0 = fl(vb[0]) * sx + tx, fl(vb[1]) * sy + ty
    x1, y1 = (fl(vb[0]) + fl(vb[2])) * sx + tx, (fl(vb[1]) + fl(vb[3])) * sy + ty
    bb = shape.bbox()
    want = (min(x0, x1), min(y0, y1), max(x0, x1), max(y0, y1))
    scale = max(1.0, max(abs(w) for w in want))
    if bb is None or any(abs(g - w) > 1e-6 * scale for g, w in zip(bb, want)):
        return [{"clause": "ImageOfViewBox", "detail": "%s: viewBox-filling rect has bbox %r, expected %r" % (what, bb, want)}]
    return []


def check_case(case):
    kind, e, vb, align, mos, exp, k = case["kind"], case["e"], case["vb"], case["align"], case["mos"], case["exp"], case["n"] + case["seed"]
    dis = []
    aspect = par(align, mos, k)
    ex, ey, ew, eh = [rat(x) for x in e]
    if kind == "normal":
        vbx, vby, vbw, vbh = [rat(x) for x in vb]
        scale_ref = float(max(abs(ex), abs(ey), ew, eh))
        vbs = "%s %s %s %s" % (s(vbx), s(vby), s(vbw), s(vbh))
        # 1. the static function
        for asp in dict.fromkeys([aspect, None if (align, mos) == ("xMidYMid", "") else aspect]):
            what = "Viewbox.viewbox_transform(%s, %s, %s, %s, %s, %r)" % (s(ex), s(ey), s(ew), s(eh), vbs, asp)
            try:
                t = svg.Viewbox.viewbox_transform(float(ex), float(ey), float(ew), float(eh), float(vbx), float(vby), float(vbw), float(vbh), asp)
                dis += cmp_matrix(svg.Matrix(t), exp, what + " = %r" % t, scale_ref)
            except engine.CaseTimeout:
                raise
            except Exception as ex_:
                dis.append({"clause": "Raises", "detail": "%s raised %s" % (what, type(ex_).__name__)})
        # 2. Viewbox(...).transform(element)
        try:
            el = types.SimpleNamespace(x=float(ex), y=float(ey), width=float(ew), height=float(eh))
            variants = [svg.Viewbox(vbs, aspect), svg.Viewbox({"viewBox": vbs, "preserveAspectRatio": aspect}),
                        svg.Viewbox(viewBox=vbs, preserveAspectRatio=aspect)]
            v = variants[k % 3]
            t = v.transform(el)
            dis += cmp_matrix(svg.Matrix(t), exp, "Viewbox(%r, %r).transform(element) = %r" % (vbs, aspect, t), scale_ref)
        except engine.CaseTimeout:
            raise
        except Exception as ex_:
            dis.append({"clause": "Raises", "detail": "Viewbox(%r, %r).transform raised %s" % (vbs, aspect, type(ex_).__name__)})
        rect = '<rect x="%s" y="%s" width="%s" height="%s"/>' % (s(vbx), s(vby), s(vbw), s(vbh))
        # 3. nested svg (outer viewport is the identity; its own preserveAspectRatio must not leak in)
        outer_par = ["", ' preserveAspectRatio="xMaxYMax slice"', ' preserveAspectRatio="none"'][k % 3]
        inner = '<svg x="%s" y="%s" width="%s" height="%s" viewBox="%s"%s>%s</svg>' % (
            unit_len(ex, k) if ex >= 0 else s(ex), s(ey), unit_len(ew, k + 1), unit_len(eh, k + 2), vbs,
            "" if (align, mos) == ("xMidYMid", "") and k % 2 else ' preserveAspectRatio="%s"' % aspect, rect)
        wrap = ["%s", "<g>%s</g>"][k % 2] % inner
        doc = '<svg xmlns="http://www.w3.org/2000/svg" width="2000" height="2000"%s>%s</svg>' % (outer_par, wrap)
        try:
            d, shapes = doc_shapes(doc, ppi=96.0)
            if len(shapes) != 1:
                dis.append({"clause": "ShapeCount", "detail": "nested document %r renders %d shapes" % (doc, len(shapes))})
            else:
                dis += check_image(shapes[0], e, vb, exp, "nested %r" % doc)
        except engine.CaseTimeout:
            raise
        except Exception as ex_:
            dis.append({"clause": "Raises", "detail": "parse of %r raised %s: %s" % (doc, type(ex_).__name__, str(ex_)[:60])})
        # 4. root svg (x/y of the outermost svg have no effect): size supplied in different ways
        if ex == 0 and ey == 0:
            route = k % 9
            kw = {"ppi": 96.0}
            if route == 0:
                attrs = 'width="%s" height="%s"' % (unit_len(ew, k), unit_len(eh, k + 3))
            elif route == 1:      # percentages of the caller's size
                attrs = 'width="50%" height="25%"'
                kw.update(width=float(2 * ew), height=float(4 * eh))
            elif route == 2:      # omitted: 100% of the caller's size
                attrs = ""
                kw.update(width=float(ew), height=float(eh))
            elif route == 3:      # caller size given as lengths: strings or Length objects
                attrs = ""
                kw.update(width=unit_len(ew, k), height=unit_len(eh, k + 1))
                if (k // 9) % 2:
                    kw.update(width=svg.Length(kw["width"]), height=svg.Length(kw["height"]))
            elif route == 5:      # one dimension from the caller, the other from an attribute
                attrs = 'height="%s"' % unit_len(eh, k)
                kw.update(width=float(ew))
            elif route == 6:
                attrs = 'width="%s"' % unit_len(ew, k)
                kw.update(height=unit_len(eh, k + 1))
            elif route == 7 and eh == vbh:      # only the width is supplied (by the caller): the height defaults to the viewBox's
                attrs = ""
                kw.update(width=float(ew))
            elif route == 8 and ew == vbw:
                attrs = ""
                kw.update(height=float(eh))
            else:                 # omitted everywhere: defaults to the viewBox size
                attrs = None
            if attrs is not None or (ew == vbw and eh == vbh):
                doc = '<svg xmlns="http://www.w3.org/2000/svg" %s viewBox="%s" preserveAspectRatio="%s">%s</svg>' % (attrs or "", vbs, aspect, rect)
                what = "root %r parsed with %r" % (doc, kw)
                try:
                    d, shapes = doc_shapes(doc, **kw)
                    dis += cmp_matrix(svg.Matrix(d.viewbox_transform), exp, what + ": viewbox_transform %r" % d.viewbox_transform, scale_ref)
                    if len(shapes) != 1:
                        dis.append({"clause": "ShapeCount", "detail": "%s renders %d shapes" % (what, len(shapes))})
                    else:
                        dis += check_image(shapes[0], e, vb, exp, what)
                except engine.CaseTimeout:
                    raise
                except Exception as ex_:
                    dis.append({"clause": "Raises", "detail": "%s raised %s: %s" % (what, type(ex_).__name__, str(ex_)[:60])})
    else:
        nums = " ".join(s(rat(x)) for x in vb)
        rect = '<rect x="1" y="2" width="3" height="4"/>'
        for doc in ('<svg xmlns="http://www.w3.org/2000/svg" width="%s" height="%s" viewBox="%s" preserveAspectRatio="%s">%s</svg>' % (s(ew), s(eh), nums, aspect, rect),
                    '<svg xmlns="http://www.w3.org/2000/svg" width="100" height="100"><svg width="%s" height="%s" viewBox="%s" preserveAspectRatio="%s">%s</svg><circle r="1"/></svg>' % (s(ew), s(eh), nums, aspect, rect)):
            try:
                d, shapes = doc_shapes(doc)
            except engine.CaseTimeout:
                raise
            except Exception as ex_:
                dis.append({"clause": "Raises", "detail": "parse of %r raised %s: %s" % (doc, type(ex_).__name__, str(ex_)[:60])})
                continue
            rects = [x for x in shapes if isinstance(x, svg.Rect)]
            if "<circle" in doc and not any(isinstance(x, svg.Circle) for x in shapes):
                dis.append({"clause": "SiblingLost", "detail": "%r: the circle after the nested svg is not rendered" % doc})
            if kind == "zero":
                if rects:
                    dis.append({"clause": "ZeroViewBoxRenders", "detail": "%r: content of a zero-sized viewBox is rendered: %r" % (doc, rects)})
            else:
                if len(rects) != 1 or any(abs(g - w) > 1e-9 for g, w in zip(rects[0].bbox(), (1, 2, 4, 6))):
                    dis.append({"clause": "IncompleteViewBoxNotIdentity", "detail": "%r: rect bbox %r, expected (1,2,4,6)" % (doc, [r.bbox() for r in rects])})
    for d_ in dis:
        d_["align"], d_["mos"], d_["kind"] = align, mos, kind
    return {"dis": dis, "nontrivial": kind == "normal" and rat(e[2]) * rat(vb[3]) != rat(e[3]) * rat(vb[2]), "class": "%s:%s:%s" % (kind, align, mos),
            "checked": ["Transform", "ImageOfViewBox"]}


def cases_from_dump(path, seed):
    n = 0
    for st in engine.read_dump(path):
        n += 1
        yield {"kind": st["kind"], "e": st["e"], "vb": st["vb"], "align": st["align"], "mos": st["mos"], "exp": st["exp"], "n": n, "seed": seed}


def run(tier, seed):
    run = engine.Run("C11", tier, seed)
    work = engine.workdir("C11")
    try:
        consts = {"Full": "FALSE" if tier == "quick" else "TRUE"}
        res = engine.run_tlc(work, "MC_C11", constants=consts, invariants=["HenceHolds", "MeetIsDefault"], timeout=7200)
        run.add_tlc(res, "Viewport cells, %s" % consts)
        n = 0
        for case, r in engine.replay("harness.c11", cases_from_dump(res["dump"], seed), chunk=200):
            run.record(case, r, key="%s%s%s%s%s" % (case["kind"], case["e"], case["vb"], case["align"], case["mos"]))
            if n % 6000 == 5:
                run.sample({k: case[k] for k in ("kind", "e", "vb", "align", "mos", "exp")})
            n += 1
        run.extra["exhaustive"] = True
    finally:
        engine.cleanup(work)
    run.rule = ("cases = initial states of MC_C11: 10 align x {absent, meet, slice} x element sizes x viewBox sizes x origins (+ zero-sized and "
                "incomplete viewBoxes); each through the static function, Viewbox.transform, a nested svg and a root svg with a seeded size-supply "
                "route; non-trivial = the aspect ratios of element and viewBox differ")
    run.assumptions = ["tolerance 1e-9 relative on scale, 1e-9 x size on translation; 1e-6 on rendered coordinates (12-decimal transform text)"]
    return run.finish()


def replay_case(case):
    worker_init()
    return check_case(case)
