"""./check --setup : parse every TLA+ module with SANY (nothing to build, nothing fetched)."""
import os, subprocess, sys
from . import engine


def main():
    work = engine.workdir("setup")
    bad = 0
    mods = sorted(f for f in os.listdir(work) if f.endswith(".tla"))
    for f in mods:
        p = subprocess.run(["java", "-Djava.io.tmpdir=" + work, "-cp", engine.TLA_JAR, "tla2sany.SANY", f], cwd=work,
                           stdout=subprocess.PIPE, stderr=subprocess.STDOUT, text=True)
        if p.returncode != 0 or "Semantic errors" in p.stdout or "Fatal errors" in p.stdout or "***Parse Error***" in p.stdout:
            print("SANY failed on", f)
            print(p.stdout[-2000:])
            bad += 1
    engine.cleanup(work)
    try:
        engine.import_lib()
    except Exception as e:
        print("cannot import svgelements from", engine.REPO, e)
        bad += 1
    print("setup: %d TLA+ modules parsed, %d failures" % (len(mods), bad))
    return 1 if bad else 0
