"""C07 - serialising a path to path data and re-parsing it reproduces the path.

MC_C07: PathInterp behaviours (as-parsed relative/smooth flags) with the writer specification
PathWrite; TLC checks Interp(Write(p, r, s)) = p for the nine option pairs on the design.
Binding A: each behaviour is parsed into a real Path in a seeded unit (the lattice unit u scales
every coordinate and radius: 1, 1e-3, 0.1, 1234.5678, 99999.999/7 ...), written with every option
pair, re-parsed and compared with the specification's segments (12-significant-digit tolerance).
MC_C16 shapes built from segment objects (sub-paths begun without a move) are round-tripped too."""
from decimal import Decimal
from . import engine
from .pathutil import KIND, close
from . import c16

svg = None
UNITS = ["1", "0.001", "0.1", "1234.5678", "14285.714142857", "0.0123456789", "33.333333333", "7"]


def worker_init():
    global svg
    svg = engine.import_lib()
    c16.svg = svg


def scaled_d(hist, u):
    out = []
    for letter, args, impl, cz in hist:
        if not impl:
            out.append(letter)
        for i, a in enumerate(args):
            if letter.upper() == "A" and i in (2, 3, 4):
                out.append(str(a))
            else:
                out.append(format(Decimal(a) * u, "f"))
    return " ".join(out)


def scale_segs(segs, u):
    f = float(u)

    def sp(p):
        return None if not p else [float(Decimal(p[0]) * u), float(Decimal(p[1]) * u)]
    res = []
    for k, s, c1, c2, e in segs:
        if k == "A":
            res.append([k, sp(s), [float(Decimal(c1[0]) * u), float(Decimal(c1[1]) * u), c1[2]], c2, sp(e)])
        else:
            res.append([k, sp(s), sp(c1), sp(c2), sp(e)])
    return res


def magnitude(segs):
    m = 1.0
    for k, s, c1, c2, e in segs:
        for p in (s, e) + (() if k == "A" else (c1, c2)):
            if p:
                m = max(m, abs(p[0]), abs(p[1]))
        if k == "A":
            m = max(m, abs(c1[0]), abs(c1[1]))
    return m


def compare(q, exp, tol, what, orig=None):
    """re-parsed path q against expected segments; geometry within tol (absolute)."""
    dis = []
    got = list(q)
    if len(got) != len(exp):
        return [{"clause": "Count", "detail": "%s: %d segments %s, expected %d %s" % (
            what, len(got), "".join(KIND.get(type(g).__name__, "?") for g in got), len(exp), "".join(e[0] for e in exp))}]

    def near(p, w):
        return p is not None and abs(p.x - w[0]) <= tol and abs(p.y - w[1]) <= tol
    for i, (g, e) in enumerate(zip(got, exp)):
        k = KIND.get(type(g).__name__)
        if k != e[0]:
            dis.append({"clause": "Kind", "detail": "%s: segment %d is %s, expected %s" % (what, i, k, e[0])})
            continue
        if not near(g.end, e[4]):
            dis.append({"clause": "End", "detail": "%s: segment %d (%s) ends at %r, expected %s" % (what, i, k, g.end, e[4])})
        if k != "M" and not near(g.start, e[1]):
            dis.append({"clause": "Start", "detail": "%s: segment %d (%s) starts at %r, expected %s" % (what, i, k, g.start, e[1])})
        if k == "Q" and not near(g.control, e[2]):
            dis.append({"clause": "Control", "detail": "%s: segment %d control %r, expected %s" % (what, i, g.control, e[2])})
        if k == "C" and not (near(g.control1, e[2]) and near(g.control2, e[3])):
            dis.append({"clause": "Control", "detail": "%s: segment %d controls %r %r, expected %s %s" % (what, i, g.control1, g.control2, e[2], e[3])})
        if k == "A" and near(g.end, e[4]) and near(g.start, e[1]):
            ref = svg.Arc(svg.Point(*e[1]), e[2][0], e[2][1], e[2][2], bool(e[3][0]), bool(e[3][1]), svg.Point(*e[4]))
            lam = arc_slack(e)
            atol = tol * max(1.0, 0.2 / max(1.0 - lam, 1e-12) ** 0.5)
            for t in (0.2, 0.5, 0.8):
                a, b = g.point(t), ref.point(t)
                if abs(a.x - b.x) > atol or abs(a.y - b.y) > atol:
                    o = orig[i] if orig is not None and i < len(orig) else ref
                    vals = (o.rx, o.ry, o.get_rotation().as_degrees)
                    rad = max(abs(o.rx), abs(o.ry), abs(e[2][0]), abs(e[2][1]), 1e-300)    # effective (possibly scaled-up) radii
                    dis.append({"clause": "ArcGeometry",
                                "six_digit_print_is_lossy": any(float("%G" % v) != float("%.12G" % v) for v in vals),
                                "radii_minimal": lam >= 1.0 - 1e-9,
                                "rel_err": max(abs(a.x - b.x), abs(a.y - b.y)) / rad,
                                # the same error divided by the F.6.6 conditioning factor of the arc's centre
                                "rel_err_conditioned": max(abs(a.x - b.x), abs(a.y - b.y)) / rad
                                / max(1.0, 0.2 / max(1.0 - lam, 1e-12) ** 0.5),
                                "detail": "%s: segment %d arc point(%s)=%r, original arc %r (off by %.3g, tolerance %.3g, Lambda %.6g)" % (
                        what, i, t, a, b, max(abs(a.x - b.x), abs(a.y - b.y)), atol, lam)})
                    break
    return dis


def arc_slack(e):
    """SVG F.6.6.2 Lambda for the arc <<A, start, <<rx, ry, rot>>, flags, end>>: > = 1 means the radii are
    minimal / scaled up (exact half turn): the centre then depends on sqrt(1 - Lambda), so a 1e-12
    relative rounding of a printed number moves points by up to 1e-6 relative."""
    import math
    (x1, y1), (rx, ry, rot), (x2, y2) = e[1], e[2], e[4]
    c, s = math.cos(math.radians(rot)), math.sin(math.radians(rot))
    dx, dy = (x1 - x2) / 2.0, (y1 - y2) / 2.0
    xp, yp = c * dx + s * dy, -s * dx + c * dy
    if rx == 0 or ry == 0:
        return 1.0
    return xp * xp / (rx * rx) + yp * yp / (ry * ry)


OPTS = [(r, s) for r in (None, False, True) for s in (None, False, True)]


def roundtrips(p, exp, tol, label):
    dis = []
    for r, s in OPTS:
        what = "%s d(relative=%s, smooth=%s)" % (label, r, s)
        try:
            d = p.d(relative=r, smooth=s)
            q = svg.Path(d)
        except engine.CaseTimeout:
            raise
        except Exception as e:
            dis.append({"clause": "Raises", "detail": "%s raised %s: %s" % (what, type(e).__name__, str(e)[:80]), "relative": r, "smooth": s})
            continue
        for x in compare(q, exp, tol, what + " = %r" % d, orig=p):
            x["relative"], x["smooth"] = r, s
            dis.append(x)
    try:
        q = svg.Path(str(p))
        dis += compare(q, exp, tol, "%s str(path)" % label, orig=p)
    except Exception as e:
        dis.append({"clause": "Raises", "detail": "%s str(path) round trip raised %s" % (label, type(e).__name__)})
    # Subpath.d(): each sub-path that owns its move is a path of its own
    try:
        n = p.count_subpaths()
        idx = 0
        for i in range(n):
            sp = p.subpath(i)
            m = len(sp)
            if isinstance(sp[0], svg.Move):
                for r, s in ((None, None), (True, True), (False, False)):
                    q = svg.Path(sp.d(relative=r, smooth=s))
                    for x in compare(q, exp[idx:idx + m], tol, "%s subpath(%d).d(relative=%s, smooth=%s)" % (label, i, r, s), orig=list(sp)):
                        x["clause"] = "Subpath:" + x["clause"]
                        dis.append(x)
            idx += m
    except engine.CaseTimeout:
        raise
    except Exception as e:
        dis.append({"clause": "Raises", "detail": "%s Subpath.d() round trip raised %s: %s" % (label, type(e).__name__, str(e)[:80])})
    # the text is that of the path as it is NOW: the same object, written above, is moved in place and written again
    try:
        dx, dy = 3.0, -2.0
        p *= svg.Matrix.translate(dx, dy)

        def sh(v):
            return None if v is None else [v[0] + dx, v[1] + dy]
        moved = [[e[0], sh(e[1]), sh(e[2]) if e[0] in ("Q", "C") else e[2], sh(e[3]) if e[0] == "C" else e[3], sh(e[4])] for e in exp]
        for r, s in ((None, None), (True, True), (False, False)):
            d = p.d(relative=r, smooth=s)
            for x in compare(svg.Path(d), moved, tol, "%s moved in place by (3,-2), then d(relative=%s, smooth=%s) = %r" % (label, r, s, d), orig=p):
                x["stage"] = "after_move"          # (same clauses as before the move: the six-digit radii finding applies alike)
                x["relative"], x["smooth"] = r, s
                dis.append(x)
    except engine.CaseTimeout:
        raise
    except Exception as e:
        dis.append({"clause": "Raises", "detail": "%s d() after an in-place move raised %s: %s" % (label, type(e).__name__, str(e)[:80])})
    return dis


def exp_of_path(p):
    """the expected segments (spec vocabulary) read off a parsed path - for data whose interpretation C01 has validated"""
    import math
    exp = []
    for g in p:
        k = KIND.get(type(g).__name__)

        def q(v):
            return None if v is None else [v.x, v.y]
        if k == "M":
            exp.append(["M", None, None, None, q(g.end)])
        elif k in ("L", "Z"):
            exp.append([k, q(g.start), None, None, q(g.end)])
        elif k == "Q":
            exp.append(["Q", q(g.start), q(g.control), None, q(g.end)])
        elif k == "C":
            exp.append(["C", q(g.start), q(g.control1), q(g.control2), q(g.end)])
        else:
            exp.append(["A", q(g.start), [g.rx, g.ry, g.get_rotation().as_degrees], [1 if abs(g.sweep) > math.pi else 0, 1 if g.sweep > 0 else 0], q(g.end)])
    return exp


def check_case(case):
    dis = []
    if "random_d" in case:
        d0 = case["random_d"]
        try:
            p = svg.Path(d0)
        except Exception:
            return {"dis": [], "nontrivial": False, "class": "random"}
        if any(isinstance(g, svg.Arc) and (g.sweep == 0 or abs(abs(g.sweep) - 3.141592653589793) < 1e-9) for g in p):
            # zero-radius / coincident arcs are lines or nothing (C05), exact half turns are ill-conditioned: the exhaustive families own them
            return {"dis": [], "nontrivial": False, "class": "random"}
        exp = exp_of_path(p)
        tol = 1e-10 * magnitude(exp)
        for x in roundtrips(p, exp, tol, "random %r:" % d0):
            dis.append(x)
        for d in dis:
            d["has_arc"] = any(e[0] == "A" for e in exp)
            d["class"] = "random"
        return {"dis": dis, "nontrivial": len(exp) >= 3, "class": "random:" + "".join(e[0] for e in exp), "checked": ["Count", "Kind", "Start", "End", "Control", "ArcGeometry"]}
    if "hist" in case:
        hist, segs = case["hist"], case["segs"]
        u = Decimal(UNITS[(case["seed"] + len(repr(hist))) % len(UNITS)])
        for unit in sorted({Decimal(1), u}):
            d0 = scaled_d(hist, unit)
            exp = scale_segs(segs, unit)
            tol = 1e-10 * magnitude(exp)
            p = svg.Path(d0)
            pre = compare(p, exp, tol, "parse of %r" % d0)
            if pre:
                continue   # what the parser builds is C01's business; nothing to round-trip against
            for x in roundtrips(p, exp, tol, "unit %s, %r:" % (unit, d0)):
                x["unit"] = str(unit)
                dis.append(x)
            if unit == 1:
                # the same path with every smooth joint made ALMOST smooth (the control 3e-8 off the reflection, far above the
                # 12 digits that are written): a shorthand command would move it
                p2 = svg.Path(d0)
                prev, n2 = None, 0
                for g in p2:
                    if isinstance(g, svg.QuadraticBezier) and isinstance(prev, svg.QuadraticBezier) and g.control == prev.end * 2 - prev.control:
                        g.control = svg.Point(g.control.x + 3e-8, g.control.y - 2e-8)
                        n2 += 1
                    elif isinstance(g, svg.CubicBezier) and isinstance(prev, svg.CubicBezier) and g.control1 == prev.end * 2 - prev.control2:
                        g.control1 = svg.Point(g.control1.x - 2e-8, g.control1.y + 3e-8)
                        n2 += 1
                    prev = g
                if n2:
                    for x in roundtrips(p2, exp_of_path(p2), tol, "almost smooth joints, %r:" % d0):
                        x["unit"] = "1"
                        x["clause"] = "AlmostSmooth:" + x["clause"]
                        dis.append(x)
        cls = ">".join(h[0] for h in hist)
        has_arc = any(h[0] in "aA" for h in hist)
    elif "arc" in case:
        a = case["arc"]
        u = Decimal(UNITS[(case["seed"] + a[4][0] * 7 + a[4][1]) % len(UNITS)])
        exp0 = [["M", None, None, None, [0, 0]], a]
        hist = [["M", [0, 0], False, False], ["A", list(a[2]) + list(a[3]) + list(a[4]), False, False]]
        for unit in sorted({Decimal(1), u}):
            d0 = scaled_d(hist, unit)
            exp = scale_segs(exp0, unit)
            tol = 1e-10 * magnitude(exp)
            p = svg.Path(d0)
            for r, s in ((None, None), (True, None)):
                what = "arc family unit %s %r d(relative=%s)" % (unit, d0, r)
                try:
                    q = svg.Path(p.d(relative=r, smooth=s))
                except Exception as e:
                    dis.append({"clause": "Raises", "detail": "%s raised %s" % (what, type(e).__name__)})
                    continue
                dis += compare(q, exp, tol, what + " = %r" % p.d(relative=r), orig=p)
        cls = "arc:%s" % (a,)
        has_arc = True
    else:
        p0 = case["p0"]
        p = c16.build(p0)
        exp = [[k, s or None, c1 or None, c2 or None, e] for k, s, c1, c2, e in p0]
        dis += roundtrips(p, exp, 1e-10 * magnitude(exp), "objects %s:" % "".join(case["word"]))
        cls = "obj:" + "".join(case["word"])
        has_arc = "A" in case["word"]
    for x in dis:
        x["has_arc"] = has_arc
    return {"dis": dis, "nontrivial": True, "class": cls, "checked": ["Count", "Kind", "Start", "End", "Control", "ArcGeometry", "Subpath"]}


def cases(dump7, dump16, dumpa, seed):
    for st in engine.read_dump(dumpa):
        yield {"arc": st["arc"], "seed": seed}
    for st in engine.read_dump(dump7):
        if len(st["hist"]) >= 1:
            yield {"hist": st["hist"], "segs": st["segs"], "seed": seed}
    for st in engine.read_dump(dump16):
        if not st["hist"] and st["word"][0] == "M":
            yield {"p0": st["p0"], "word": st["word"]}


def run(tier, seed):
    run = engine.Run("C07", tier, seed)
    work = engine.workdir("C07")
    try:
        consts = {"MaxCmds": 3, "NVar": 2} if tier == "quick" else {"MaxCmds": 4, "NVar": 1}
        res = engine.run_tlc(work, "MC_C07", constants=consts, invariants=["RoundTrip", "Connected"], init="InitW")
        ca = {"R": 4, "Full": "FALSE"} if tier == "quick" else {"R": 6, "Full": "TRUE"}
        resa = engine.run_tlc(work, "MC_C07_arcs", constants=ca, invariants=["NonDegenerate"])
        run.add_tlc(resa, "arc family, %s" % ca)
        run.add_tlc(res, "PathWrite round trip on the design, %s" % consts)
        c2 = {"MaxSegs": 4 if tier == "quick" else 5, "MaxOps": 0}
        res2 = engine.run_tlc(work, "MC_C16", constants=c2, invariants=["Connected"])
        run.add_tlc(res2, "PathOps shapes (objects), %s" % c2)
        n = 0
        for case, r in engine.replay("harness.c07", cases(res["dump"], res2["dump"], resa["dump"], seed), chunk=100):
            run.record(case, r, key=r["class"])
            if n % 1500 == 5:
                run.sample({k: case[k] for k in case if k != "seed"})
            n += 1
        # long random conforming data (the generator of C01's recorded traces, whose interpretation TLC validates there)
        import random
        from . import c01_trace
        rng = random.Random(seed * 3001 + 7)
        rnd = []
        for _ in range(600 if tier == "quick" else 12000):
            cmds = [c for c in c01_trace.gen_commands(rng, rng.randint(3, 20)) if not c[2]]      # (no completing z: written as a plain close)
            rnd.append({"random_d": c01_trace.to_d(cmds, rng), "seed": seed})
        # consecutive points a tiny distance apart (rounding noise of a transform, 1e-5 .. 1e-12): the relative output then
        # carries offsets that are written in exponent form
        rnd.append({"random_d": "M 1,1 L 1.00000000025,1 L 3,4", "seed": seed})
        for _ in range(200 if tier == "quick" else 4000):
            x, y = rng.randint(-50, 50), rng.randint(-50, 50)
            k = rng.randint(5, 12)
            dx, dy = rng.randint(1, 999) * 10.0 ** (-k - rng.randint(0, 2)), rng.randint(-999, 999) * 10.0 ** (-k - rng.randint(0, 2))
            cmd = rng.choice(["L", "Q %d,%d" % (x + 3, y - 2), "C %d,%d %d,%d" % (x + 1, y + 4, x - 2, y + 1)])
            rnd.append({"random_d": "M %d,%d %s %r,%r L %d,%d" % (x, y, cmd, x + dx, y + dy, x + 7, y - 3), "seed": seed})
        for case, r in engine.replay("harness.c07", rnd, chunk=100):
            run.record(case, r, key=r["class"])
        run.extra["random_paths"] = len(rnd)
    finally:
        engine.cleanup(work)
    run.rule = ("cases = PathInterp behaviours (<= MaxCmds commands, no completing z) in unit 1 and in a seeded decimal unit, x 9 "
                "(relative, smooth) pairs + str() + Subpath.d(); plus every PathOps shape that begins with a move, built from "
                "segment objects; distinct = command-letter sequence / shape word")
    run.assumptions = ["interpretation is equivariant under a change of the lattice unit (all spec operations are linear), so the "
                       "expected segments of a behaviour in unit u are the spec's segments times u",
                       "tolerance: 1e-10 x largest coordinate magnitude (12 significant digits, offsets accumulate)",
                       "arcs compared through the library's Arc constructor (C05)"]
    return run.finish()


def replay_case(case):
    worker_init()
    return check_case(case)
