"""C14 - fill, stroke and stroke width follow the SVG/CSS cascade and inheritance.

MC_C14 (DocCore + DocPaint): single elements with every subset of the seven sources of a property
(attribute, rules via * / type / .class / type.class / #id, inline style) in both rule orders,
inheritance chains of depth 3 under transforms, use of a styled definition, currentColor, opacity.
The real parser's fill / stroke (value and alpha) / stroke_width must be those of the cascade."""
import io
import math
from fractions import Fraction
from . import engine, docutil

svg = None


def worker_init():
    global svg
    svg = engine.import_lib()


def rat(q):
    return Fraction(q[0], q[1])


def val_str(v):
    if isinstance(v, list):
        return docutil.num(rat(v))
    return v


def paint_attrs(tok):
    p = tok[5]
    if not p:
        return []
    attrs, classes, inline = p
    a = [(n, val_str(v)) for n, v in attrs]
    if classes:
        a.append(("class", " ".join(classes)))
    if inline:
        a.append(("style", ";".join("%s:%s" % (n, val_str(v)) for n, v in inline)))
    return a


def sheet_text(sheet, k):
    if not sheet:
        return ""
    parts = []
    for i, (kind, arg, decls) in enumerate(sheet):
        sel = {"*": "*", "type": arg, "class": "." + str(arg), "typeclass": "%s.%s" % tuple(arg) if kind == "typeclass" else "", "id": "#" + str(arg)}[kind]
        if (k + i) % 3 == 1:
            sel = sel + ", .unused%d" % i            # comma list
        body = ";".join("%s:%s" % (n, val_str(v)) for n, v in decls)
        if (k + i) % 2:
            body = " " + body + "; "
        parts.append("%s{%s}" % (sel, body) if (k + i) % 4 else "%s {\n  %s\n}" % (sel, body))
        if (k + i) % 3 == 2:
            parts.append("/* comment { fill: purple } */")
    return "<style>%s</style>" % "\n".join(parts)


def colour_ok(c, name, opacity):
    """c: real Color or None;  name: colour keyword or 'none'"""
    if name == "none":
        return c is None or c.value is None
    if c is None or c.value is None:
        return False
    ref = svg.Color(name)
    a = float(rat(opacity)) * 255.0
    return (c.red, c.green, c.blue) == (ref.red, ref.green, ref.blue) and abs(c.alpha - a) <= 1.0


def check_width_pct(case):
    """stroke-width="p%": a percentage that is neither a width nor a height refers to the normalised diagonal of the viewport,
    sqrt((w^2 + h^2) / 2) (SVG 1.1 section 7.10) - irrational in general, hence a closed formula here and not a TLC value"""
    W, H, p, how = case["W"], case["H"], case["p"], case["how"]
    decl = {"attr": 'stroke-width="%d%%"' % p, "inline": 'style="stroke-width:%d%%"' % p, "parent": ""}[how]
    inner = '<rect x="1" y="2" width="30" height="40" stroke="red" %s/>' % decl
    if how == "parent":
        inner = '<g stroke-width="%d%%">%s</g>' % (p, inner)
    xml = '<svg xmlns="http://www.w3.org/2000/svg" width="%d" height="%d">%s</svg>' % (W, H, inner)
    want = p / 100.0 * math.sqrt((W * W + H * H) / 2.0)
    dis = []
    for reify in (True, False):
        what = "parse(reify=%s) of %s" % (reify, xml)
        try:
            d = svg.SVG.parse(io.StringIO(xml), reify=reify)
            sh = [e for e in d.elements() if isinstance(e, svg.Shape)][0]
            got = sh.implicit_stroke_width
        except engine.CaseTimeout:
            raise
        except Exception as e:
            dis.append({"clause": "Raises", "detail": "%s raised %s: %s" % (what, type(e).__name__, str(e)[:80])})
            continue
        if got is None or abs(got - want) > 1e-9 * max(1.0, want):
            dis.append({"clause": "StrokeWidthPercent", "detail": "%s: stroke width %r, %d%% of the normalised diagonal %r is %r" % (what, got, p, math.sqrt((W * W + H * H) / 2.0), want)})
    for x in dis:
        x["kind"] = "width_pct"
        x["xml"] = xml
    return {"dis": dis, "nontrivial": True, "class": "width_pct", "xml": xml, "checked": ["StrokeWidthPercent"]}


def check_case(case):
    if "W" in case:
        return check_width_pct(case)
    doc, sheet, cc, out, k = case["doc"], case["sheet"], case["callerColor"], case["out"], case["n"] + case["seed"]
    xml = docutil.to_xml(doc, k, paint_attrs=paint_attrs, prolog=sheet_text(sheet, k))
    dis = []
    for reify in (True, False):
        what = "parse(reify=%s, color=%r) of %s" % (reify, cc, xml)
        try:
            ccarg = svg.Color(cc) if k % 2 else cc          # the caller's colour as a Color object or as text
            d = svg.SVG.parse(io.StringIO(xml), reify=reify, color=ccarg)
            if k % 2 and (ccarg.value != svg.Color(cc).value):
                dis.append({"clause": "CallerColourChanged", "detail": "%s: the caller's Color(%r) is %r after the parse" % (what, cc, ccarg)})
            shapes = [e for e in d.elements() if isinstance(e, svg.Shape)]
        except engine.CaseTimeout:
            raise
        except Exception as e:
            dis.append({"clause": "Raises", "detail": "%s raised %s: %s" % (what, type(e).__name__, str(e)[:80])})
            continue
        if len(shapes) != len(out):
            dis.append({"clause": "ShapeCount", "detail": "%s: %d shapes, expected %d" % (what, len(shapes), len(out))})
            continue
        for s, o in zip(shapes, out):
            fill, fo, stroke, so, sw, det = o[3][:6]
            if len(o[3]) > 6 and o[3][6] == "non-scaling-stroke":
                # the width is scaled by the enclosing viewport transforms alone
                v = [rat(x) for x in o[5]]
                det = [abs(v[0] * v[3] - v[1] * v[2]).numerator, abs(v[0] * v[3] - v[1] * v[2]).denominator]
            if not colour_ok(s.fill, fill, fo):
                dis.append({"clause": "Fill", "detail": "%s: fill %r (alpha %s), cascade gives %s with opacity %s" % (what, s.fill, getattr(s.fill, "alpha", None), fill, float(rat(fo)))})
            if not colour_ok(s.stroke, stroke, so):
                dis.append({"clause": "Stroke", "detail": "%s: stroke %r (alpha %s), cascade gives %s with opacity %s" % (what, s.stroke, getattr(s.stroke, "alpha", None), stroke, float(rat(so)))})
            w = float(rat(sw))
            scaled = w * math.sqrt(float(rat(det)))
            got = s.stroke_width
            # a transform that cannot be reified into the shape's own attributes (rotation, shear of a rect ...) stays on the
            # shape together with the unscaled width; what must hold is the effective width (implicit_stroke_width below)
            # and, whenever no transform is left, the attribute itself
            identity = s.transform.is_identity()
            want = scaled if (reify and identity) else (w if not reify else None)
            if want is not None and (got is None or abs(got - want) > 1e-9 * max(1.0, want)):
                dis.append({"clause": "StrokeWidth", "detail": "%s: stroke_width %r, expected %r (declared %r, |det| %r)" % (what, got, want, w, float(rat(det)))})
            try:
                isw = s.implicit_stroke_width
                if abs(isw - scaled) > 1e-9 * max(1.0, scaled):
                    dis.append({"clause": "ImplicitStrokeWidth", "detail": "%s: implicit_stroke_width %r, expected %r" % (what, isw, scaled)})
            except Exception as e:
                dis.append({"clause": "Raises", "detail": "%s: implicit_stroke_width raised %s" % (what, type(e).__name__)})
    for x in dis:
        x["kind"] = case["kind"]
        x["xml"] = xml
    return {"dis": dis, "nontrivial": True, "class": case["kind"], "xml": xml, "checked": ["Fill", "Stroke", "StrokeWidth", "ImplicitStrokeWidth"]}


def cases_from_dump(path, seed):
    n = 0
    for st in engine.read_dump(path):
        n += 1
        yield {"kind": st["kind"], "doc": st["doc"], "sheet": st["sheet"], "callerColor": st["callerColor"], "out": st["out"], "n": n, "seed": seed}


def run(tier, seed):
    run = engine.Run("C14", tier, seed)
    work = engine.workdir("C14")
    try:
        res = engine.run_tlc(work, "MC_C14", constants={}, invariants=["OneShape", "DisplayLaw", "UseCurrentLaw"])
        run.add_tlc(res, "DocPaint cascade cases")
        n = 0
        bykind = {}
        for case, r in engine.replay("harness.c14", cases_from_dump(res["dump"], seed), chunk=100):
            run.record(case, r, key=r.get("xml", str(case["doc"])) + case["callerColor"])
            bykind[case["kind"]] = bykind.get(case["kind"], 0) + 1
            if n % 500 == 5:
                run.sample({"xml": r.get("xml"), "expected_paint": [o[3] for o in case["out"]]})
            n += 1
        # generated paint documents (harness/docgen.py): random nesting, declarations and style sheets; cascade evaluated by TLC
        import json
        import os
        import random
        from . import docgen
        rng = random.Random(seed * 4001 + 14)
        ndocs = 1200 if tier == "quick" else 30000
        docs = [docgen.gen_paint_doc(rng) for _ in range(ndocs)]
        gen = []
        for part in range(0, ndocs, 5000):
            df = os.path.join(work, "docs_%d.json" % part)
            with open(df, "w") as f:
                json.dump(docs[part:part + 5000], f)
            gres = engine.run_tlc(work, "MC_C14", constants={}, init="InitGen", env={"DOCS_FILE": df}, timeout=7200)
            run.add_tlc(gres, "DocPaint cascade evaluated by TLC on %d generated documents" % len(docs[part:part + 5000]))
            for i, st in enumerate(engine.read_dump(gres["dump"])):
                gen.append({"kind": "generated", "doc": st["doc"], "sheet": st["sheet"], "callerColor": st["callerColor"], "out": st["out"], "n": 50000 + part + i, "seed": seed})
        for case, r in engine.replay("harness.c14", gen, chunk=100):
            run.record(case, r, key=r.get("xml", str(case["doc"])) + case["callerColor"])
            bykind["generated"] = bykind.get("generated", 0) + 1
        pct = [{"W": W, "H": H, "p": p, "how": how} for (W, H) in ((300, 400), (200, 100), (70, 170), (96, 96)) for p in (10, 25) for how in ("attr", "inline", "parent")]
        for case, r in engine.replay("harness.c14", pct, chunk=8):
            run.record(case, r, key=r.get("xml"))
            bykind["width_pct"] = bykind.get("width_pct", 0) + 1
        run.extra["cases_by_kind"] = bykind
        run.extra["exhaustive"] = True
    finally:
        engine.cleanup(work)
    run.rule = ("cases = initial states of MC_C14: 3 properties x 128 source subsets x 2 rule orders; 4^3 x 2^3 x 4 inheritance chains; use of a styled definition; "
                "currentColor x sources of color x caller colour; fill-/stroke-opacity by attribute / inline / inheritance; each parsed with reify=True and False")
    run.assumptions = ["style sheet text spelling (comments, comma lists, whitespace) varies with VERIF_SEED", "alpha compared within 1/255"]
    return run.finish()


def replay_case(case):
    worker_init()
    return check_case(case)
