"""Engine: TLC runner, TLA+ value reader, parallel replay, known findings, evidence, verdicts.

Exit codes: 0 property held on everything explored (possibly KNOWN-FINDING lines),
            1 VIOLATION (a disagreement not listed in known_findings.json),
            2 machinery failure (TLC error, spec invariant violated, timeout of a tool).
"""
import json
import os
import re
import shutil
import subprocess
import sys
import time
import signal
import traceback
import multiprocessing as mp

VERIF = os.path.dirname(os.path.dirname(os.path.abspath(__file__)))
REPO = os.environ.get("VERIF_REPO", "/repo")
SPEC = os.path.join(VERIF, "spec")
# a run against another tree (tools/try_mutant.sh) never touches the committed evidence or the scratch
# directories of a run against /repo
_ALT = "VERIF_REPO" in os.environ and os.path.abspath(REPO) != "/repo"
WORKROOT = os.path.join(VERIF, ".work", "alt-" + os.path.basename(REPO.rstrip("/"))) if _ALT else os.path.join(VERIF, ".work")
EVID = os.path.join(WORKROOT, "evidence") if _ALT else os.path.join(VERIF, "evidence")
REPLAYS = os.path.join(EVID, "replays")
TLA_JAR = "/opt/veriftools/tla/tla2tools.jar:/opt/veriftools/tla/CommunityModules-deps.jar"


class MachineryError(Exception):
    pass


def import_lib():
    """Import svgelements from the working tree under test (never from a cached copy)."""
    if REPO not in sys.path:
        sys.path.insert(0, REPO)
    for k in list(sys.modules):
        if k == "svgelements" or k.startswith("svgelements."):
            del sys.modules[k]
    import svgelements  # noqa
    f = os.path.abspath(svgelements.__file__)
    if not f.startswith(os.path.abspath(REPO) + os.sep):
        raise MachineryError("svgelements imported from %s, not from %s" % (f, REPO))
    return svgelements


# --------------------------------------------------------------------------- TLC

def workdir(name):
    """Fresh scratch directory .work/<name>-<pid> (concurrent runs of the same check do not collide); directories left
    behind by runs that no longer exist are removed."""
    os.makedirs(WORKROOT, exist_ok=True)
    for old in os.listdir(WORKROOT):
        m = re.match(r"^%s-(\d+)$" % re.escape(name), old)
        if m and not os.path.exists("/proc/%s" % m.group(1)):
            shutil.rmtree(os.path.join(WORKROOT, old), ignore_errors=True)
    d = os.path.join(WORKROOT, "%s-%d" % (name, os.getpid()))
    shutil.rmtree(d, ignore_errors=True)
    os.makedirs(d)
    for root in (SPEC, os.path.join(SPEC, "mc"), os.path.join(SPEC, "trace")):
        if os.path.isdir(root):
            for f in os.listdir(root):
                if f.endswith(".tla") or f.endswith(".cfg"):
                    shutil.copy(os.path.join(root, f), os.path.join(d, f))
    return d


def cleanup(d):
    shutil.rmtree(d, ignore_errors=True)


_STAT = re.compile(r"(\d+) states generated, (\d+) distinct states found")


def run_tlc(work, module, cfg=None, constants=None, dump=True, workers=16, timeout=1800,
            simulate=None, depth=None, seed=None, env=None, extra=None, invariants=None,
            cfg_extra=None, deadlock=False, init="Init", next_="Next", tolerate=()):
    """Run TLC on <module>.tla in `work`.  If `constants` is given a cfg is written from it
    (literal constants), otherwise `cfg` names an existing cfg file.  Returns a dict with
    states (distinct), transitions (generated), out (stdout), dump (path or None)."""
    if constants is not None:
        cfg = module + "_gen.cfg"
        lines = ["INIT " + init, "NEXT " + next_]
        if constants:
            lines.append("CONSTANTS")
            for k, v in constants.items():
                lines.append("  %s = %s" % (k, v))
        for inv in invariants or []:
            lines.append("INVARIANT %s" % inv)
        for x in cfg_extra or []:
            lines.append(x)
        lines.append("CHECK_DEADLOCK %s" % ("TRUE" if deadlock else "FALSE"))
        with open(os.path.join(work, cfg), "w") as f:
            f.write("\n".join(lines) + "\n")
    os.makedirs(os.path.join(work, "jtmp"), exist_ok=True)      # (TLC leaves a tlc-<n> directory per run in java.io.tmpdir)
    cmd = ["java", "-XX:+UseParallelGC", "-Xmx24g", "-Xss64m", "-Djava.io.tmpdir=" + os.path.join(work, "jtmp"), "-cp", TLA_JAR, "tlc2.TLC",
           "-workers", str(workers), "-metadir", os.path.join(work, "meta_" + module),
           "-noGenerateSpecTE", "-config", cfg]
    dump_path = None
    if simulate is not None:
        cmd += ["-simulate", simulate]
        if depth:
            cmd += ["-depth", str(depth)]
        if seed is not None:
            cmd += ["-seed", str(seed)]
    elif dump:
        dump_path = os.path.join(work, module + "_states")
        cmd += ["-dump", dump_path]
        dump_path += ".dump"
    if extra:
        cmd += extra
    cmd.append(module + ".tla")
    e = dict(os.environ)
    if env:
        e.update(env)
    t0 = time.time()
    try:
        p = subprocess.run(cmd, cwd=work, env=e, stdout=subprocess.PIPE, stderr=subprocess.STDOUT,
                           timeout=timeout, text=True)
    except subprocess.TimeoutExpired:
        subprocess.run(["pkill", "-f", "tlc2[.]TLC.*" + re.escape(work)])
        raise MachineryError("TLC timed out after %ss on %s" % (timeout, module))
    out = p.stdout
    m = None
    for m in _STAT.finditer(out):
        pass
    ok = ("Model checking completed. No error has been found." in out) or \
         (simulate is not None and "Error:" not in out and p.returncode in (0,))
    stopped = None
    if not ok and simulate is not None:
        for t in tolerate:
            if t in out:
                stopped = t          # a sampling run that ended early for a tolerated reason keeps what it produced
                ok = True
    if not ok:
        tail = "\n".join(out.splitlines()[-60:])
        raise MachineryError("TLC failed on %s (rc=%s):\n%s" % (module, p.returncode, tail))
    res = {"states": int(m.group(2)) if m else 0, "transitions": int(m.group(1)) if m else 0,
           "out": out, "dump": dump_path, "tlc_wall_s": round(time.time() - t0, 2),
           "module": module, "stopped_early": stopped}
    return res


def simulate_cases(work, module, constants, num, depth, seed, invariant="Emit", tag="CASE", timeout=3600, init="Init", next_="Next"):
    """Random behaviours beyond the exhaustive bound: TLC -simulate (num behaviours per worker, 16 workers) with an
    invariant that PrintT's <<tag, ...>> for the states of interest.  TLC evaluates the invariant on every successor it
    generates, so each behaviour contributes all one-step extensions of its prefixes.  Returns (result, distinct values)."""
    # exact rational arithmetic on TLC's 32-bit integers can overflow on long random behaviours: that ends the sampling
    # run (the cases printed before it are kept and the fact is recorded), it is not a verdict of any kind
    res = run_tlc(work, module, constants=constants, invariants=[invariant], simulate="num=%d" % num, depth=depth,
                  seed=seed, dump=False, timeout=timeout, init=init, next_=next_, tolerate=("Overflow when computing",))
    seen, vals = set(), []
    for v in printed_tuples(res["out"], tag):
        k = json.dumps(v)
        if k not in seen:
            seen.add(k)
            vals.append(v)
    m = re.search(r"(\d+) states checked, (\d+) traces generated", res["out"])
    res["states"] = len(vals)
    res["transitions"] = int(m.group(1)) if m else len(vals)
    res["behaviours"] = int(m.group(2)) if m else 0
    res["out"] = res["out"][-2000:]
    return res, vals


def run_apalache(module_path, init, inv, length=1, timeout=600):
    """apalache-mc check on a typed wrapper module (spec/apalache/*.tla).  Returns "ok", "error" (invariant refuted)
    or "unavailable: ..." - the caller decides what each outcome means."""
    out_dir = os.path.join(WORKROOT, "apalache-%d" % os.getpid())
    os.makedirs(out_dir, exist_ok=True)
    env = dict(os.environ, TMPDIR=out_dir)      # (the apalache-mc wrapper makes a SANY* directory with mktemp -t per run)
    try:
        p = subprocess.run(["apalache-mc", "check", "--init=" + init, "--inv=" + inv, "--length=%d" % length,
                            "--out-dir=" + out_dir, module_path], stdout=subprocess.PIPE, stderr=subprocess.STDOUT,
                           text=True, timeout=timeout, cwd=WORKROOT, env=env)
    except (OSError, subprocess.TimeoutExpired) as e:
        shutil.rmtree(out_dir, ignore_errors=True)
        return "unavailable: %s" % type(e).__name__
    shutil.rmtree(out_dir, ignore_errors=True)
    if "EXITCODE: OK" in p.stdout:
        return "ok"
    if "Checker has found an error" in p.stdout:
        return "error"
    return "unavailable: " + " ".join(p.stdout.split()[-12:])


_VAR = re.compile(r"^(?:/\\ )?(\w+) = ", re.M)


def tla_to_py(text):
    """TLA+ value made of tuples, integers, strings and booleans -> Python value."""
    t = text.replace("<<", "[").replace(">>", "]").replace("{", "[").replace("}", "]")   # sets are read as lists
    t = t.replace("TRUE", "true").replace("FALSE", "false")
    return json.loads(t)


def read_dump(path):
    """Yield one dict per state of a TLC -dump file."""
    with open(path) as f:
        buf = []
        for line in f:
            if line.startswith("State "):
                if buf:
                    yield _state("".join(buf))
                buf = []
            else:
                buf.append(line)
        if buf and "".join(buf).strip():
            yield _state("".join(buf))


def _state(block):
    parts = _VAR.split(block)
    st = {}
    for i in range(1, len(parts), 2):
        st[parts[i]] = tla_to_py(parts[i + 1])
    return st


def py_to_tla(v):
    if isinstance(v, bool):
        return "TRUE" if v else "FALSE"
    if isinstance(v, int):
        return str(v)
    if isinstance(v, str):
        return json.dumps(v)
    if isinstance(v, (list, tuple)):
        return "<<" + ", ".join(py_to_tla(x) for x in v) + ">>"
    raise TypeError(v)


def printed_tuples(out, tag):
    """Values printed by PrintT(<<tag, ...>>) in TLC output (bracket matching; one per print)."""
    res = []
    key = re.compile(r'<<\s*"%s"' % re.escape(tag))
    i = 0
    while True:
        m = key.search(out, i)
        if not m:
            break
        i = m.start()
        depth = 0
        j = i
        while j < len(out):
            if out.startswith("<<", j):
                depth += 1
                j += 2
                continue
            if out.startswith(">>", j):
                depth -= 1
                j += 2
                if depth == 0:
                    break
                continue
            j += 1
        try:
            res.append(tla_to_py(out[i:j]))
        except Exception:
            pass
        i = j
    return res


# --------------------------------------------------------------------------- replay pool

class CaseTimeout(Exception):
    pass


def _alarm(signum, frame):
    raise CaseTimeout()


class PartialResult(dict):
    """Result of a case that did not run to its end (time limit, crash): the fields a harness reads from a complete
    result (its class, the text it built ...) read as a placeholder instead of raising."""

    def __missing__(self, key):
        return "(case did not complete)"


# Per-case limits are measured in CPU time of the worker (ITIMER_PROF), not wall-clock time, so that a loaded
# machine cannot turn a slow schedule into a "Timeout" disagreement; the library is pure computation, a hang
# is a busy loop.
def arm(seconds):
    signal.signal(signal.SIGPROF, _alarm)
    signal.setitimer(signal.ITIMER_PROF, seconds)


def disarm():
    signal.setitimer(signal.ITIMER_PROF, 0)


_WORKER = {}


def _worker_init(modname, repo):
    # The worker is a fork of a parent that may hold millions of objects (every case of a thorough tier): a full collection
    # of the cyclic garbage collector would traverse them all and charge seconds of CPU time to whatever case is running.
    import gc
    gc.freeze()
    os.environ["VERIF_REPO"] = repo
    sys.setrecursionlimit(3000)
    signal.signal(signal.SIGPROF, _alarm)
    import importlib
    mod = importlib.import_module(modname)
    _WORKER["mod"] = mod
    if hasattr(mod, "worker_init"):
        mod.worker_init()


def _worker_run(chunk):
    mod = _WORKER["mod"]
    out = []
    slow = 0
    for case in chunk:
        if slow >= 3:      # three cases of this chunk ran into the time limit: the rest of the chunk is not run
            out.append((case, {"dis": [], "nontrivial": False, "skipped": True}))
            continue
        arm(getattr(mod, "CASE_TIMEOUT", 20.0))
        try:
            try:
                r = mod.check_case(case)
            except CaseTimeout:
                # A time limit that is hit once may be the process's doing (a full garbage collection, a page fault storm);
                # a case that hangs does so every time: it is run a second time and reported only if it hits the limit again.
                disarm()
                arm(getattr(mod, "CASE_TIMEOUT", 20.0))
                r = mod.check_case(case)
        except CaseTimeout:
            r = PartialResult({"dis": [{"clause": "Timeout", "detail": "case exceeded the per-case time limit (twice in a row)"}],
                               "nontrivial": True})
        except RecursionError:
            r = PartialResult({"dis": [{"clause": "HarnessRecursionError", "detail": traceback.format_exc()[-600:]}],
                               "nontrivial": True})
        except Exception as exc:
            disarm()
            # an exception raised INSIDE the library that a harness did not expect at that call is what the library did on this
            # case (on the pinned tree no case raises there): a disagreement.  Anything raised by harness code is machinery.
            tb = exc.__traceback__
            while tb.tb_next is not None:
                tb = tb.tb_next
            if os.path.basename(tb.tb_frame.f_code.co_filename) == "svgelements.py":
                r = PartialResult({"dis": [{"clause": "Raises", "detail": "the library raised %s: %s  [%s]" % (
                    type(exc).__name__, str(exc)[:80], traceback.format_exc()[-400:].replace("\n", " | "))}], "nontrivial": True})
            else:
                raise MachineryError("harness exception on case %r:\n%s" % (case, traceback.format_exc()))
        finally:
            disarm()
        if any(d.get("clause") in ("Hangs", "Timeout") for d in r.get("dis", [])):
            slow += 1
        out.append((case, r))
    return out


_CURRENT = None        # the Run of this process (set by Run.__init__): lets replay() stop once the verdict is settled
STOP_AFTER_VIOLATIONS = 400


def _settled():
    r = _CURRENT
    if r is not None and len(r.violations) >= STOP_AFTER_VIOLATIONS:
        r.extra["stopped_after_violations"] = len(r.violations)
        return True
    return False


def replay(modname, cases, procs=16, chunk=200):
    """Run mod.check_case over cases in a process pool; yields (case, result).  Once several hundred violations are
    on record the verdict cannot change any more and the remaining cases are not run (a broken tree can make every
    case slow)."""
    cases = list(cases)
    if _settled():
        return
    chunks = [cases[i:i + chunk] for i in range(0, len(cases), chunk)]
    if procs <= 1 or len(cases) < 50:
        _worker_init(modname, REPO)
        for c in chunks:
            for x in _worker_run(c):
                yield x
            if _settled():
                return
        return
    ctx = mp.get_context("fork")
    from concurrent.futures import ProcessPoolExecutor
    from concurrent.futures.process import BrokenProcessPool
    pending = chunks
    crashes = 0
    while pending:
        ex = ProcessPoolExecutor(max_workers=procs, mp_context=ctx, initializer=_worker_init, initargs=(modname, REPO))
        futs = [ex.submit(_worker_run, c) for c in pending]
        done = 0
        try:
            for f in futs:
                res = f.result()
                done += 1
                for x in res:
                    yield x
                if _settled():
                    ex.shutdown(wait=False, cancel_futures=True)
                    return
        except BrokenProcessPool:
            # a worker died (segmentation fault, abort): the library took the interpreter down.  The chunk whose result was
            # awaited is reported (its first case stands for it) and the chunks after it are run again in a fresh pool.
            crashes += 1
            ex.shutdown(wait=False, cancel_futures=True)
            bad = pending[done]
            yield (bad[0], PartialResult({"dis": [{"clause": "Crash", "detail": "a worker process died (segmentation fault or abort) while cases were being "
                                                   "replayed; this case begins the chunk of %d cases that was awaited" % len(bad)}], "nontrivial": True}))
            pending = pending[done + 1:]
            if crashes >= 3:
                return
            continue
        ex.shutdown()
        return


# --------------------------------------------------------------------------- findings

def load_findings(prop):
    p = os.path.join(VERIF, "known_findings.json")
    if not os.path.exists(p):
        return []
    with open(p) as f:
        data = json.load(f)
    return [x for x in data.get("findings", []) if x["property"] == prop]


def _match_one(pat, val):
    if isinstance(pat, dict):
        if "re" in pat:
            return isinstance(val, str) and re.search(pat["re"], val) is not None
        if "in" in pat:
            return val in pat["in"]
        if "range" in pat:
            return isinstance(val, (int, float)) and pat["range"][0] <= val <= pat["range"][1]
        if "contains" in pat:
            return isinstance(val, (list, str)) and pat["contains"] in val
        return False
    return pat == val


def match_finding(findings, desc):
    for f in findings:
        if all(_match_one(p, desc.get(k)) for k, p in f["match"].items()):
            return f
    return None


# --------------------------------------------------------------------------- run + evidence

# --------------------------------------------------------------------------- anchored-line coverage

PINNED = "0766864"


def _line_map():
    """old line (pinned commit, which the anchors of properties.jsonl refer to) -> current line of the working tree"""
    try:
        out = subprocess.run(["git", "-C", REPO, "diff", "-U0", PINNED, "--", "svgelements/svgelements.py"],
                             stdout=subprocess.PIPE, stderr=subprocess.DEVNULL, text=True, timeout=60).stdout
    except Exception:
        out = ""
    hunks = []
    for m in re.finditer(r"^@@ -(\d+)(?:,(\d+))? \+(\d+)(?:,(\d+))? @@", out, re.M):
        a, b, c, d = int(m.group(1)), int(m.group(2) or 1), int(m.group(3)), int(m.group(4) or 1)
        hunks.append((a, b, d))

    def f(line):
        shift = 0
        for a, b, d in hunks:
            if a + max(b, 1) - 1 < line:
                shift += d - b
        return line + shift
    return f


def anchor_ranges(prop):
    """[(mechanism name, [(first, last) in CURRENT line numbers])] from properties.jsonl"""
    res = []
    try:
        with open(os.path.join(VERIF, "properties.jsonl")) as fh:
            props = [json.loads(l) for l in fh if l.strip()]
    except OSError:
        return res
    f = _line_map()
    for p in props:
        if p["id"] != prop:
            continue
        for m in p.get("anchors", {}).get("mechanism", []):
            rs = [(f(int(a)), f(int(b))) for a, b in re.findall(r"(\d+)-(\d+)", m.get("where", ""))]
            if rs:
                res.append((m["name"], rs))
    return res


def _executable_lines(path):
    lines = set()
    with open(path) as fh:
        code = compile(fh.read(), path, "exec")
    stack = [code]
    while stack:
        c = stack.pop()
        for _, _, ln in c.co_lines():
            if ln:
                lines.add(ln)
        stack.extend(k for k in c.co_consts if hasattr(k, "co_lines"))
    return lines


def anchor_probe(prop, modname, cases):
    """Re-run a spread of cases in this process under a line tracer and report, per anchored mechanism of the
    property, how many of its executable lines the check's cases execute (what the check actually exercises)."""
    import importlib
    ranges = anchor_ranges(prop)
    if not ranges or not cases:
        return None
    mod = importlib.import_module(modname)
    if hasattr(mod, "worker_init"):
        mod.worker_init()
    src = os.path.join(os.path.abspath(REPO), "svgelements", "svgelements.py")
    wanted = set()
    for _, rs in ranges:
        for a, b in rs:
            wanted.update(range(a, b + 1))
    hit = set()

    def local(frame, event, arg):
        if event == "line" and frame.f_lineno in wanted:
            hit.add(frame.f_lineno)
        return local

    def tracer(frame, event, arg):
        if frame.f_code.co_filename == src:
            if frame.f_lineno in wanted:
                hit.add(frame.f_lineno)
            return local
        return None
    fn = getattr(mod, "dispatch", None) or mod.check_case
    t0 = time.time()
    done = 0
    sys.settrace(tracer)
    try:
        for case in cases:
            if time.time() - t0 > 12:
                break
            try:
                arm(10.0)
                fn(case)
            except BaseException:
                pass
            finally:
                disarm()
            done += 1
    finally:
        sys.settrace(None)
    execl = _executable_lines(src)
    rep = []
    for name, rs in ranges:
        lines = set()
        for a, b in rs:
            lines.update(l for l in range(a, b + 1) if l in execl)
        rep.append({"mechanism": name, "current_lines": ["%d-%d" % r for r in rs], "executable_lines": len(lines),
                    "executed_by_probe": len(lines & hit)})
    return {"cases_traced": done, "mechanisms": rep}


class Run:
    def __init__(self, prop, tier, seed, level="model_checking"):
        self.prop, self.tier, self.seed, self.level = prop, tier, seed, level
        self.t0 = time.time()
        self.states = 0
        self.transitions = 0
        self.replayed = 0
        self.traces = 0
        self.nontrivial = set()
        self.samples = []
        global _CURRENT
        _CURRENT = self
        self.probe_module = "harness." + prop.lower()
        self._probe = []          # a spread of replayed cases, re-run under a line tracer by anchor_probe()
        self.violations = []
        self.known = {}
        self.extra = {}
        self.tlc_runs = []
        self.findings = load_findings(prop)
        self.assumptions = []
        self.rule = ""
        self.clauses = {}

    def add_tlc(self, res, what=""):
        self.states += res["states"]
        self.transitions += res["transitions"]
        self.tlc_runs.append({"module": res["module"], "what": what, "states": res["states"],
                              "transitions": res["transitions"], "wall_s": res["tlc_wall_s"]})
        if res.get("stopped_early"):
            self.tlc_runs[-1]["stopped_early"] = res["stopped_early"]

    def sample(self, s, limit=6):
        if len(self.samples) < limit:
            self.samples.append(s)

    def record(self, case, result, key=None):
        """result: {"dis": [disagreement dicts], "nontrivial": bool, "class": str, "checked": [clauses]}"""
        self.replayed += 1
        if self.replayed <= 40 or (self.replayed % 97 == 0 and len(self._probe) < 160):
            self._probe.append(case)
        if result.get("nontrivial", True):
            self.nontrivial.add(key if key is not None else json.dumps(case, sort_keys=True, default=str))
        for c in result.get("checked", []):
            self.clauses[c] = self.clauses.get(c, 0) + 1
        for d in result.get("dis", []):
            desc = dict(d)
            desc.setdefault("class", result.get("class"))
            f = match_finding(self.findings, desc)
            if f is not None:
                k = f["id"]
                if k not in self.known:
                    self.known[k] = {"what": f["what"], "count": 0, "example": {"case": case, "dis": d}}
                self.known[k]["count"] += 1
            else:
                self.violations.append({"case": case, "dis": desc})

    def finish(self):
        os.makedirs(REPLAYS, exist_ok=True)
        for f in os.listdir(REPLAYS):
            if f.startswith(self.prop + "-"):
                os.remove(os.path.join(REPLAYS, f))
        for k, v in sorted(self.known.items()):
            print("KNOWN-FINDING: property=%s %s [%s; %d case(s) this run]" % (self.prop, v["what"], k, v["count"]))
        shown = 0
        seen_clause = {}
        for i, v in enumerate(self.violations):
            cl = v["dis"].get("clause", "?")
            seen_clause[cl] = seen_clause.get(cl, 0) + 1
            if seen_clause[cl] > 3 or shown >= 12:
                continue
            path = os.path.join(REPLAYS, "%s-%d.json" % (self.prop, shown))
            with open(path, "w") as f:
                json.dump({"property": self.prop, "case": v["case"], "disagreement": v["dis"]}, f, indent=1, default=str)
            print("VIOLATION property=%s replay=%s" % (self.prop, path))
            print("   clause=%s detail=%s" % (cl, str(v["dis"].get("detail", ""))[:300]))
            shown += 1
        if self.violations:
            print("   %d disagreement(s) in total, by clause: %s" % (len(self.violations), seen_clause))
        cov = {
            "states": self.states, "transitions": self.transitions,
            "traces_validated_against_impl": self.replayed + self.traces,
            "samples": self.samples or ["(none)"],
            "evaluations": self.replayed + self.traces,
            "distinct_nontrivial": len(self.nontrivial),
            "rule": self.rule,
            "behaviours_replayed_into_impl": self.replayed,
            "recorded_traces_checked_by_tlc": self.traces,
            "clauses_checked": self.clauses,
            "tlc_runs": self.tlc_runs,
            "known_findings_seen": {k: v["count"] for k, v in self.known.items()},
            "checker_cmd": "./check %s --tier %s" % (self.prop, self.tier),
        }
        if getattr(self, "probe_module", None):
            try:
                ap = anchor_probe(self.prop, self.probe_module, self._probe)
                if ap:
                    cov["anchored_lines"] = ap
            except Exception as e:       # the probe is informational, never a verdict
                cov["anchored_lines"] = {"error": "%s: %s" % (type(e).__name__, e)}
        cov.update(self.extra)
        ev = {"property_id": self.prop, "tier": self.tier, "seed": self.seed, "level": self.level,
              "coverage": cov, "assumptions": self.assumptions,
              "wall_s": round(time.time() - self.t0, 2), "violations": len(self.violations)}
        os.makedirs(EVID, exist_ok=True)
        with open(os.path.join(EVID, self.prop + ".json"), "w") as f:
            json.dump(ev, f, indent=1, default=str)
        print("%s %s: states=%d transitions=%d replayed=%d traces=%d nontrivial=%d known=%d violations=%d wall=%.1fs" % (
            self.prop, self.tier, self.states, self.transitions, self.replayed, self.traces,
            len(self.nontrivial), sum(v["count"] for v in self.known.values()), len(self.violations),
            time.time() - self.t0))
        return 1 if self.violations else 0
