"""C16 - reverse() traces the same geometry backwards and is an involution.

MC_C16 (PathOps.tla): every path shape (word over M L Q C A Z R, <= MaxSegs) x every history of
reverse / subpath-reverse / integer affine map (<= MaxOps).  The spec state carries the expected
geometry abstraction; the real Path is built from segment objects, driven through the same
history, projected with the same sub-path rule and compared (closed sub-paths up to rotation of
their cyclic edge list)."""
from copy import copy
from . import engine
from .pathutil import pt, close, arc_point

svg = None
MATS = {1: (-1, 0, 0, 1, 0, 0), 2: (0, 1, -1, 0, 0, 0), 3: (2, 0, 0, 2, 1, -3)}


def worker_init():
    global svg
    svg = engine.import_lib()


def build(p0):
    segs = []
    P = svg.Point
    for k, s, c1, c2, e in p0:
        if k == "M":
            segs.append(svg.Move(None, P(*e)))
        elif k == "L":
            segs.append(svg.Line(P(*s), P(*e)))
        elif k == "Z":
            segs.append(svg.Close(P(*s), P(*e)))
        elif k == "Q":
            segs.append(svg.QuadraticBezier(P(*s), P(*c1), P(*e)))
        elif k == "C":
            segs.append(svg.CubicBezier(P(*s), P(*c1), P(*c2), P(*e)))
        elif k == "A":
            segs.append(svg.Arc(P(*s), c1[0], c1[1], c1[2], bool(c2[0]), bool(c2[1]), P(*e)))
    if len(segs) == 1:
        return svg.Path(segs[0])
    return svg.Path(*segs)


def build_parsed(p0):
    """The same path from path data written with relative commands (the segments then carry relative=True, which d() honours)."""
    out, cur, zp = [], (0, 0), (0, 0)

    def rel(q):
        return "%d,%d" % (q[0] - cur[0], q[1] - cur[1])
    for k, s, c1, c2, e in p0:
        if k == "M":
            out.append("m " + rel(e))
            zp = tuple(e)
        elif k == "L":
            out.append("l " + rel(e))
        elif k == "Z":
            out.append("z")
            e = zp
        elif k == "Q":
            out.append("q %s %s" % (rel(c1), rel(e)))
        elif k == "C":
            out.append("c %s %s %s" % (rel(c1), rel(c2), rel(e)))
        elif k == "A":
            out.append("a %d,%d %d %d %d %s" % (c1[0], c1[1], c1[2], c2[0], c2[1], rel(e)))
        cur = tuple(e)
    return svg.Path(" ".join(out))


def geometry(path):
    """The projection: PathOps!Geometry recomputed from the public fields of a real Path."""
    segs = list(path)
    wins, st = [], 0
    for i, g in enumerate(segs):
        if isinstance(g, svg.Move) and i != st:
            wins.append((st, i - 1))
            st = i
        if isinstance(g, svg.Close):
            wins.append((st, i))
            st = i + 1
    if st < len(segs):
        wins.append((st, len(segs) - 1))
    geo = []
    for a, b in wins:
        closed = isinstance(segs[b], svg.Close)
        fp = segs[a].end if isinstance(segs[a], svg.Move) else segs[a].start
        edges = [g for g in segs[a:b + 1] if not isinstance(g, (svg.Move, svg.Close))]
        if closed and segs[b].start is not None and segs[b].end is not None:
            # a closing line counts as an edge when it has a length (rounding noise of a few ulp after a transform does not)
            cs, ce = segs[b].start, segs[b].end
            if max(abs(cs.x - ce.x), abs(cs.y - ce.y)) > 1e-10 * max(1.0, abs(cs.x), abs(cs.y), abs(ce.x), abs(ce.y)):
                edges.append(svg.Line(segs[b].start, segs[b].end))
        elif closed and segs[b].start != segs[b].end:
            edges.append(svg.Line(segs[b].start, segs[b].end))
        geo.append((closed, fp, edges))
    return geo


def edge_eq(real, exp):
    k = type(real).__name__
    want = {"L": "Line", "Q": "QuadraticBezier", "C": "CubicBezier", "A": "Arc"}[exp[0]]
    if k != want:
        return "kind %s, expected %s" % (k, want)

    def same(p, q):
        return p is not None and abs(p.x - q[0]) <= 1e-9 and abs(p.y - q[1]) <= 1e-9
    if not same(real.start, exp[1]):
        return "start %s, expected %s" % (real.start, exp[1])
    if not same(real.end, exp[4]):
        return "end %s, expected %s" % (real.end, exp[4])
    if exp[0] == "Q" and not same(real.control, exp[2]):
        return "control %s, expected %s" % (real.control, exp[2])
    if exp[0] == "C" and not (same(real.control1, exp[2]) and same(real.control2, exp[3])):
        return "controls %s %s, expected %s %s" % (real.control1, real.control2, exp[2], exp[3])
    if exp[0] == "A":
        ref = svg.Arc(svg.Point(*exp[1]), exp[2][0], exp[2][1], exp[2][2], bool(exp[3][0]), bool(exp[3][1]), svg.Point(*exp[4]))
        for t in (0.25, 0.5, 0.75):
            a, b = real.point(t), ref.point(t)
            if not (close(a.x, b.x, 1e-7) and close(a.y, b.y, 1e-7)):
                return "arc point(%s) = %s, expected %s (arc %s)" % (t, a, b, exp)
            # and against the SVG end-point parameterisation written out in the harness (not through the library's Arc)
            w = arc_point(exp[1][0], exp[1][1], exp[2][0], exp[2][1], exp[2][2], exp[3][0], exp[3][1], exp[4][0], exp[4][1], t)
            size = max(1.0, abs(exp[2][0]), abs(exp[2][1]))
            if abs(a.x - w[0]) > 1e-7 * size or abs(a.y - w[1]) > 1e-7 * size:
                return "arc point(%s) = %s, the end-point parameterisation gives %s (arc %s)" % (t, a, w, exp)
    return None


def compare_geo(real, exp):
    dis = []
    if len(real) != len(exp):
        return [{"clause": "SubpathCount", "detail": "expected %d sub-paths, got %d" % (len(exp), len(real))}]
    for i, ((rc, rfp, redges), (ec, efp, eedges)) in enumerate(zip(real, exp)):
        if rc != ec:
            dis.append({"clause": "ClosedFlag", "detail": "sub-path %d: closed=%s expected %s" % (i, rc, ec)})
            continue
        if len(redges) != len(eedges):
            dis.append({"clause": "EdgeCount", "detail": "sub-path %d: %d edges, expected %d" % (i, len(redges), len(eedges))})
            continue
        if not eedges:
            if rfp is None or abs(rfp.x - efp[0]) > 1e-9 or abs(rfp.y - efp[1]) > 1e-9:
                dis.append({"clause": "PointLost", "detail": "sub-path %d: point %s, expected %s" % (i, rfp, efp)})
            continue
        rots = range(len(eedges)) if ec else [0]
        best = None
        for r in rots:
            errs = [edge_eq(redges[(j + r) % len(redges)], eedges[j]) for j in range(len(eedges))]
            errs = [e for e in errs if e]
            if not errs:
                best = None
                break
            if best is None or len(errs) < len(best):
                best = errs
        if best:
            dis.append({"clause": "Edge", "detail": "sub-path %d: %s" % (i, best[0])})
    return dis


def connected(path):
    dis = []
    prev = None
    for i, g in enumerate(path):
        if prev is not None and not isinstance(g, svg.Move):
            if g.start is None or prev.end is None or g.start != prev.end:
                dis.append({"clause": "Connected", "detail": "segment %d starts at %s, predecessor ended at %s" % (i, g.start, prev.end)})
        prev = g
    return dis


def shape_class(word):
    w = "".join(word)
    if not w.startswith("M"):
        return "fragment_without_leading_move"
    for i, c in enumerate(w[:-1]):
        if c == "Z" and w[i + 1] != "M":
            return "subpath_without_own_move"
    return "wellformed"


def windows(w):
    wins, st = [], 0
    for i, c in enumerate(w):
        if c == "M" and i != st:
            wins.append((st, i - 1))
            st = i
        if c == "Z":
            wins.append((st, i))
            st = i + 1
    if st < len(w):
        wins.append((st, len(w) - 1))
    return wins


def reach(word, hist):
    """Does the history run the code the two recorded findings are about?  Path.reverse() of a path that has a sub-path
    without its own move (a leading fragment, or one that begins right after a close), or a view reversal of a sub-path
    that begins right after a close / of the closed sub-path just before one.  A view reversal of a leading fragment
    ('L', 'LQ M..' subpath(0).reverse()) works on the pinned tree and is NOT covered by the findings."""
    w = "".join(word)
    wins = windows(w)
    moveless = [a > 0 and w[a] != "M" for a, b in wins]
    for op, arg in hist:
        if op == "rev":
            if not w.startswith("M") or any(moveless):
                return "moveless_window"
        elif op == "revsub":
            k = arg - 1
            if k < len(wins) and (moveless[k] or (k + 1 < len(wins) and moveless[k + 1])):
                return "moveless_window"
    return "none"


def check_case(case):
    p0, hist, geo, word = case["p0"], case["hist"], case["geo"], case["word"]
    dis = []
    variants = ["lazy", "reify"]
    if word[0] == "M":
        variants += ["parsed", "parsed_reify"]          # the same path parsed from relative path data
    for variant in variants:
        if variant.endswith("reify") and not any(h[0] == "mul" for h in hist):
            continue
        try:
            p = build_parsed(p0) if variant.startswith("parsed") else build(p0)
            for op, arg in hist:
                if op == "rev":
                    p.reverse()
                elif op == "revsub":
                    p.subpath(arg - 1).reverse()
                else:
                    p *= svg.Matrix(*MATS[arg])
                    if variant.endswith("reify"):
                        p.reify()
            q = abs(p)
            real = geometry(q)
        except engine.CaseTimeout:
            raise
        except Exception as e:
            dis.append({"clause": "Raises", "detail": "%s: %s" % (type(e).__name__, str(e)[:100]), "variant": variant})
            continue
        for d in compare_geo(real, geo) + connected(q):
            d["variant"] = variant
            dis.append(d)
    sc = shape_class(word)
    ops = ">".join(h[0] for h in hist)
    for d in dis:
        d["shape_class"] = sc
        d["reach"] = reach(word, hist)
        d["ops"] = ops
        d["detail"] = "%s after %s on %s [%s]" % (d["detail"], hist, "".join(word), sc)
    return {"dis": dis, "nontrivial": len(word) >= 2 and any(h[0] != "mul" for h in hist), "class": "".join(word) + ":" + ops,
            "checked": ["SubpathCount", "ClosedFlag", "EdgeCount", "Edge", "PointLost", "Connected"]}


def cases_from_dump(path):
    for st in engine.read_dump(path):
        if st["hist"]:
            yield {"p0": st["p0"], "hist": st["hist"], "geo": st["geo"], "word": st["word"]}


def run(tier, seed):
    run = engine.Run("C16", tier, seed)
    work = engine.workdir("C16")
    try:
        consts = {"MaxSegs": 4, "MaxOps": 2} if tier == "quick" else {"MaxSegs": 5, "MaxOps": 3}
        res = engine.run_tlc(work, "MC_C16", constants=consts, invariants=["Connected", "NoPointLost", "SameShape"],
                             cfg_extra=["PROPERTY Involution", "PROPERTY ClosedStays", "PROPERTY OnlyThatSub"])
        run.add_tlc(res, "PathOps: shapes x histories, %s" % consts)
        n = 0
        byclass = {}
        for case, r in engine.replay("harness.c16", cases_from_dump(res["dump"])):
            run.record(case, r, key=r["class"])
            sc = shape_class(case["word"])
            byclass[sc] = byclass.get(sc, 0) + 1
            if n % 5000 == 13:
                run.sample({"word": "".join(case["word"]), "history": case["hist"], "expected_geometry": case["geo"]})
            n += 1
        run.extra["cases_by_shape_class"] = byclass
        from . import c16_trace
        c16_trace.run_into(run, work, tier, seed)
    finally:
        engine.cleanup(work)
    run.rule = ("cases = states of MC_C16 with a non-empty history; distinct = (shape word, operation sequence); non-trivial = "
                ">= 2 segments and at least one reverse")
    run.assumptions = ["arcs are compared through the library's Arc constructor on the spec's reversed/mapped arguments (C05/C02 own those)",
                       "closed sub-paths are compared up to rotation of their cyclic edge list"]
    return run.finish()


def replay_case(case):
    worker_init()
    if "history" in case:
        return {"dis": [], "note": "recorded edit trace: re-run ./check C16 with the same VERIF_SEED to reproduce"}
    return check_case(case)
