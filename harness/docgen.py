"""Seeded random documents in the DocCore token vocabulary (for the 'generated documents' tier: the harness draws the
document, TLC evaluates DocCore!RenderDoc on it, the real parser is compared with that)."""
import random

ALIGNS = ["none", "xMinYMin", "xMidYMin", "xMaxYMin", "xMinYMid", "xMidYMid", "xMaxYMid", "xMinYMax", "xMidYMax", "xMaxYMax"]
E0 = ["end", "", 0, False, [], []]
NOL = ["none", [0, 1]]


def R(n, d=1):
    return [n, d]


def A(n, d=1):
    return ["abs", [n, d]]


def Pc(n):
    return ["pct", [n, 1]]


def position(rng, **kw):
    """a length used as a coordinate: may be negative (sizes and radii may not)"""
    l = length(rng, **kw)
    if l != NOL and rng.random() < 0.25:
        l = [l[0], [-l[1][0], l[1][1]]]
    return l


def size(rng, **kw):
    """a width, height or radius: now and then omitted or zero (either way the element is not rendered, SVG 1.1 9.2-9.4)"""
    r = rng.random()
    if r < 0.06:
        return NOL
    if r < 0.10:
        return A(0)
    return length(rng, 1, allow_none=False, **kw)


def length(rng, lo=0, hi=60, allow_none=True, allow_pct=True):
    r = rng.random()
    if allow_none and r < 0.2:
        return NOL
    if allow_pct and r < 0.45:
        return Pc(rng.choice([0, 10, 25, 50, 100, 150]))
    if r < 0.55:
        return A(rng.choice([1, 3, 5, 7, 15]), 2)
    return A(rng.choice([0, 1, 2, 3, 5, 8, 10, 20, 30, 48, 96][lo > 0:]) if True else 0)


def par(rng):
    if rng.random() < 0.35:
        return ["xMidYMid", ""]
    return [rng.choice(ALIGNS), rng.choice(["", "meet", "slice"])]


def viewbox(rng):
    r = rng.random()
    if r < 0.3:
        return []
    if r < 0.36:
        return [R(0), R(0), R(rng.choice([0, 10])), R(rng.choice([0, 10]))]       # zero sized (unless 10 x 10)
    return [R(rng.choice([0, 0, -10, 5, 7])), R(rng.choice([0, 0, 5, -7, 3])), R(rng.choice([10, 20, 50, 100, 40])), R(rng.choice([10, 20, 50, 100, 25]))]


def gen_doc(rng, ntok):
    ids = iter(["a", "b", "c", "d", "e", "f", "g", "h", "i", "j", "k", "m", "n", "p", "q", "r"])
    used = []
    root_vb = viewbox(rng)
    root = ["svg", "", rng.choice([0, 0, 0, 1, 2]), False,
            [NOL, NOL, length(rng, 1, allow_pct=False) if rng.random() < 0.8 else NOL, length(rng, 1, allow_pct=False) if rng.random() < 0.8 else NOL, root_vb, par(rng)], []]
    doc = [root]
    depth = 1
    open_ids = [""]
    for _ in range(ntok):
        r = rng.random()
        tf = rng.choice([0, 0, 0, 1, 2, 3, 4, 5, 6, 7])
        disp = rng.random() < 0.06
        ident = next(ids) if rng.random() < 0.6 else ""
        if r < 0.12 and depth > 1:
            doc.append(list(E0))
            depth -= 1
            open_ids.pop()
            continue
        if r < 0.30 and depth < 4:
            kind = rng.choice(["g", "g", "svg", "svg", "defs"])
            if kind == "svg":
                geo = [position(rng), position(rng), length(rng, 1), length(rng, 1), viewbox(rng), par(rng)]
            else:
                geo = []
            doc.append([kind, ident, tf if kind != "defs" else 0, disp, geo, []])
            depth += 1
            open_ids.append(ident)
            if ident:
                used.append(ident)
            continue
        shape = rng.choice(["rect", "rect", "circle", "ellipse", "line", "polyline", "polygon", "path", "use", "use"])
        if shape == "rect":
            geo = [position(rng), position(rng), size(rng), size(rng),
                   rng.choice([NOL, NOL, A(2), A(40), A(0)]), rng.choice([NOL, NOL, A(3), A(50)])]
        elif shape == "circle":
            geo = [position(rng), position(rng), size(rng, allow_pct=False)]
        elif shape == "ellipse":
            rboth = size(rng)          # (one radius given and the other omitted: SVG 1.1 and SVG 2 differ - not generated)
            geo = [position(rng), position(rng), rboth, size(rng) if rboth != NOL else NOL] if rboth != NOL or True else None
            if (geo[2] == NOL) != (geo[3] == NOL):
                geo[3] = geo[2] if geo[2] == NOL else A(4)
            geo = geo      # (radii may be percentages: rx of the viewport width, ry of its height)
        elif shape == "line":
            geo = [position(rng), position(rng), position(rng), position(rng)]
        elif shape in ("polyline", "polygon"):
            geo = [[R(rng.randint(-5, 9)), R(rng.randint(-5, 9))] for _ in range(rng.choice([0, 1, 2, 3, 4]))]
        elif shape == "path":
            geo = [rng.choice([1, 2])]
        else:
            cand = [u for u in used if u not in open_ids]
            target = rng.choice(cand) if cand and rng.random() < 0.85 else "nothing"
            geo = [target, rng.choice([NOL, A(10), A(3), Pc(10), A(-7), Pc(-20)]), rng.choice([NOL, A(20), A(5), A(-4)])]
        doc.append([shape, ident, tf, disp, geo, []])
        if ident:
            used.append(ident)
    doc += [list(E0) for _ in range(depth)]
    cfg = [rng.choice([[], [], R(400), R(96)]), rng.choice([[], [], R(400), R(48)]), rng.choice([0, 0, 0, 1, 2])]
    return {"doc": doc, "cfg": cfg}


# --------------------------------------------------------------------------- paint documents (C14)

COLOURS = ["red", "blue", "lime", "none", "currentColor", "yellow"]
WIDTHS = [R(0), R(1, 2), R(2), R(3)]
OPACS = [R(0), R(1, 4), R(1, 2), R(1)]
PAINT_SHAPES = ("rect", "circle", "ellipse", "line", "polyline", "polygon")
# type selectors: some tag names are substrings of others (g / polygon / svg, line / polyline) - a type selector names one tag
TYPE_SELECTORS = ["rect", "circle", "g", "g", "line", "line", "polygon", "polyline", "ellipse"]


def decls(rng, shape, n, own=True):
    """own: declarations written on a shape itself (vector-effect is modelled on the element only; whether it
    inherits is left open, so rules - which may match containers - do not set it)"""
    props = ["fill", "stroke", "stroke-width", "color", "fill-opacity", "stroke-opacity"]
    if shape and own and rng.random() < 0.15:
        props.append("vector-effect")
    if rng.random() < 0.08:
        props.append("display")
    out = []
    for p in rng.sample(props, min(n, len(props))):
        if p in ("fill", "stroke"):
            v = rng.choice(COLOURS)
        elif p == "stroke-width":
            v = rng.choice(WIDTHS)
        elif p == "color":
            v = rng.choice(["teal", "navy", "maroon"])
        elif p in ("fill-opacity", "stroke-opacity"):
            v = rng.choice(OPACS)
        elif p == "vector-effect":
            v = rng.choice(["non-scaling-stroke", "none"])
        else:
            v = rng.choice(["none", "inline"])
        out.append([p, v])
    return out


def gen_paint_doc(rng):
    vb = rng.choice([[], [R(0), R(0), R(100), R(50)], [R(0), R(0), R(50), R(25)]])
    root = ["svg", "", 0, False, [NOL, NOL, A(200), A(100), vb, ["xMidYMid", ""]], [[], [], []]]
    doc = [root]
    depth = 1
    ids = iter("abcdefghij")
    nshape = 0
    for _ in range(rng.randint(2, 7)):
        r = rng.random()
        if r < 0.15 and depth > 1:
            doc.append(list(E0))
            depth -= 1
            continue
        classes = rng.choice([[], [], ["k"], ["m"], ["k", "m"]])
        ident = next(ids) if rng.random() < 0.7 else ""
        if r < 0.45 and depth < 4:
            paint = [decls(rng, False, rng.choice([0, 1, 2, 3])), classes, decls(rng, False, rng.choice([0, 0, 1, 2]))]
            doc.append(["g", ident, rng.choice([0, 0, 2, 4, 5, 6, 7]), False, [], paint])
            depth += 1
        else:
            paint = [decls(rng, True, rng.choice([0, 1, 2, 3])), classes, decls(rng, True, rng.choice([0, 0, 1, 2]))]
            sk = rng.random()
            if sk < 0.35:
                doc.append(["rect", ident, rng.choice([0, 0, 2, 4]), False, [A(1), A(2), A(30), A(40), NOL, NOL], paint])
            elif sk < 0.65:
                doc.append(["circle", ident, rng.choice([0, 0, 7, 6]), False, [A(5), A(6), A(7)], paint])
            elif sk < 0.75:
                doc.append(["ellipse", ident, rng.choice([0, 0, 4]), False, [A(5), A(6), A(7), A(3)], paint])
            elif sk < 0.85:
                doc.append(["line", ident, rng.choice([0, 0, 2]), False, [A(1), A(2), A(30), A(40)], paint])
            else:
                doc.append([rng.choice(["polyline", "polygon"]), ident, rng.choice([0, 0, 6]), False, [[R(1), R(2)], [R(9), R(3)], [R(4), R(8)]], paint])
            nshape += 1
    if nshape == 0:
        doc.append(["rect", "z", 0, False, [A(1), A(2), A(30), A(40), NOL, NOL], [decls(rng, True, 2), ["k"], []]])
    doc += [list(E0) for _ in range(depth)]
    used_ids = [t[1] for t in doc if t[0] != "end" and t[1]]
    sheet = []
    for _ in range(rng.choice([0, 1, 2, 3, 4])):
        kind = rng.choice(["*", "type", "type", "class", "class", "typeclass", "id"])
        if kind == "*":
            arg, body = "", [d for d in decls(rng, False, 1) if d[0] != "display"]
        elif kind == "type":
            arg, body = rng.choice(TYPE_SELECTORS), decls(rng, True, rng.choice([1, 2]), own=False)
        elif kind == "class":
            arg, body = rng.choice(["k", "m"]), decls(rng, True, rng.choice([1, 2]), own=False)
        elif kind == "typeclass":
            arg, body = [rng.choice(TYPE_SELECTORS), rng.choice(["k", "m"])], decls(rng, True, rng.choice([1, 2]), own=False)
        else:
            if not used_ids:
                continue
            arg = rng.choice(used_ids)
            is_shape = any(t[1] == arg and t[0] in PAINT_SHAPES for t in doc)
            body = decls(rng, True, rng.choice([1, 2]), own=is_shape)
        if rng.random() < 0.12:
            body = []                      # an empty rule (".b{}") is a rule like any other: it declares nothing
        if body or kind != "*":
            sheet.append([kind, arg, body])
    return {"doc": doc, "sheet": sheet, "callerColor": rng.choice(["black", "teal"])}
