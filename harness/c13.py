"""C13 - colour spellings denote their CSS/SVG RGBA values; accessors are consistent.

MC_C13 (Color.tla + ColorTable.tla): one state per spelling (147 keywords, every 3/4-digit hex
string, 6/8-digit hex on a byte grid, rgb()/rgba() numbers and percentages, hsl()/hsla()) with its
RGBA value in exact arithmetic, and every accessor history of <= MaxSet writes.  Channels that CSS
leaves real-valued (percentages, HSL, fractional numbers, opacity) may be rounded either way."""
import math
from fractions import Fraction
from . import engine

svg = None


def worker_init():
    global svg
    svg = engine.import_lib()


def rat(q):
    return Fraction(q[0], q[1])


def num(fr):
    if fr.denominator == 1:
        return str(fr.numerator)
    return repr(float(fr))


def chan_ok(got, want, float_arith=False):
    """want: int (exact) or rational [n, d] (either rounding)"""
    if isinstance(want, int):
        return got == want
    w = rat(want)
    if w.denominator == 1 and not float_arith:
        return got == w.numerator
    if float_arith:   # HSL: channels come out of floating-point arithmetic, +-1 LSB also at integral values
        return abs(got - w) <= 1
    return math.floor(w) <= got <= math.ceil(w)


def spellings(case, k):
    mode, arg = case["mode"], case["arg"]
    if mode == "keyword":
        return [arg, arg.upper(), arg.capitalize(), arg[:3] + arg[3:].upper()]
    if mode == "hex":
        h = "".join(arg)
        return ["#" + h, "#" + h.upper(), h if k % 3 == 0 else "#" + h]
    if mode in ("rgb", "rgbp"):
        r, g, b, o = arg
        pct = "%" if mode == "rgbp" else ""
        body = [num(rat(x)) + pct for x in (r, g, b)]
        out = []
        if o:
            a = num(rat(o))
            out.append("rgba(%s, %s, %s, %s)" % (body[0], body[1], body[2], a))
            out.append("rgba(%s,%s,%s,%s)" % (body[0], body[1], body[2], a))
            out.append("rgb( %s , %s , %s , %s )" % (body[0], body[1], body[2], a))
        else:
            out.append("rgb(%s, %s, %s)" % tuple(body))
            out.append("rgb(%s,%s,%s)" % tuple(body))
            out.append("rgba( %s , %s , %s )" % tuple(body))
        return out
    if mode == "hsl":
        h, s, l, o = arg
        hs = num(rat(h))
        units = [hs]   # CSS Color 3: the hue is a plain number of degrees
        out = []
        for hh in units:
            if o:
                out.append("hsla(%s, %s%%, %s%%, %s)" % (hh, num(rat(s)), num(rat(l)), num(rat(o))))
            else:
                out.append("hsl(%s, %s%%, %s%%)" % (hh, num(rat(s)), num(rat(l))))
        return out
    return []


def primes(case):
    """The same number tokens in the OTHER functional notations: what a colour string denotes does not depend on what was parsed
    before it (a cache keyed by the numbers alone would)."""
    mode, arg = case["mode"], case["arg"]
    if mode not in ("rgb", "rgbp", "hsl"):
        return []
    a, b, c, o = arg
    t = [num(rat(x)) for x in (a, b, c)]
    al = (", " + num(rat(o))) if o else ""
    forms = {"rgb": "rgb%s(%s, %s, %s%s)" % ("a" if o else "", t[0], t[1], t[2], al),
             "rgbp": "rgb%s(%s%%, %s%%, %s%%%s)" % ("a" if o else "", t[0], t[1], t[2], al),
             "hsl": "hsl%s(%s, %s%%, %s%%%s)" % ("a" if o else "", t[0], t[1], t[2], al)}
    return [v for k, v in forms.items() if k != mode]


def check_spelling(case):
    dis = []
    col = case["col"]
    for s in primes(case):
        try:
            svg.Color(s)
        except engine.CaseTimeout:
            raise
        except Exception:
            pass
    for s in dict.fromkeys(spellings(case, case["n"])):
        try:
            c = svg.Color(s)
            got = (c.red, c.green, c.blue, c.alpha)
        except engine.CaseTimeout:
            raise
        except Exception as e:
            dis.append({"clause": "Raises", "detail": "Color(%r) raised %s: %s" % (s, type(e).__name__, str(e)[:60]), "spelling": s})
            continue
        if c.value is None:
            dis.append({"clause": "Value", "detail": "Color(%r) has no value" % s, "spelling": s})
            continue
        bad = [n for i, (n, g, w) in enumerate(zip("rgba", got, col)) if not chan_ok(g, w, case["mode"] == "hsl" and i < 3)]
        if bad:
            want = [w if isinstance(w, int) else float(rat(w)) for w in col]
            dis.append({"clause": "Value", "detail": "Color(%r) = rgba%s, specification gives %s (channel %s)" % (s, got, want, ",".join(bad)),
                        "spelling": s, "channels": bad})
            continue
        # accessors agree with each other on this colour and Color(c.hex) == c
        r, g, b, a = got
        checks = [("value", c.value & 0xFFFFFFFF, (r << 24) | (g << 16) | (b << 8) | a), ("rgb", c.rgb, (r << 16) | (g << 8) | b),
                  ("bgr", c.bgr, (b << 16) | (g << 8) | r), ("argb", c.argb, (a << 24) | (r << 16) | (g << 8) | b), ("rgba", c.rgba & 0xFFFFFFFF, (r << 24) | (g << 16) | (b << 8) | a),
                  ("hexa", c.hexa, "#%02x%02x%02x%02x" % got), ("hexrgb", c.hexrgb, "#%02x%02x%02x" % got[:3])]
        for nm, gv, wv in checks:
            if gv != wv:
                dis.append({"clause": "Accessor", "detail": "Color(%r).%s = %r, channels say %r" % (s, nm, gv, wv), "spelling": s})
        try:
            if not (svg.Color(c.hex) == c) or svg.Color(c.hex).value & 0xFFFFFFFF != c.value & 0xFFFFFFFF:
                dis.append({"clause": "HexRoundTrip", "detail": "Color(Color(%r).hex) != the colour (hex %r)" % (s, c.hex), "spelling": s})
        except Exception as e:
            dis.append({"clause": "HexRoundTrip", "detail": "Color(Color(%r).hex) raised %s" % (s, type(e).__name__), "spelling": s})
    if case["mode"] == "keyword" and case["arg"] == "black":
        # (colour keywords are ASCII case-insensitive, CSS Color 3 section 4.1; "fill: NONE" in a style sheet means none)
        for s, want in (("none", None), ("NONE", None), ("None", None), ("nOnE", None), ("transparent", (0, 0, 0, 0)), ("TRANSPARENT", (0, 0, 0, 0)),
                        ("Transparent", (0, 0, 0, 0))):
            try:
                c = svg.Color(s)
                got = None if c.value is None else (c.red, c.green, c.blue, c.alpha)
            except Exception as e:
                got = type(e).__name__
            if got != want:
                dis.append({"clause": "Value", "detail": "Color(%r) = %r, expected %r" % (s, got, want), "spelling": s})
    for d in dis:
        d["mode"] = case["mode"]
        d["keyword"] = case["arg"] if case["mode"] == "keyword" else None
    return dis


def pack(name, p):
    r, g, b, a = p
    return {"rgba": (r << 24) | (g << 16) | (b << 8) | a, "argb": (a << 24) | (r << 16) | (g << 8) | b,
            "rgb": (r << 16) | (g << 8) | b, "bgr": (b << 16) | (g << 8) | r}[name]


def hsl_of(c):
    return c.hue, c.saturation, c.lightness


def check_acc(case):
    dis = []
    hist, col, note, start = case["hist"], case["col"], case["note"], case["arg"]
    try:
        c = svg.Color("#%02x%02x%02x%02x" % tuple(start))
        if (c.red, c.green, c.blue, c.alpha) != tuple(start):
            return [{"clause": "Construct", "detail": "Color(#hex of %s) gives %s" % (start, (c.red, c.green, c.blue, c.alpha))}]
        before = None
        for i, (name, v) in enumerate(hist):
            before = (c.red, c.green, c.blue, c.alpha)
            hsl_before = hsl_of(c)
            if name in ("red", "green", "blue", "alpha"):
                setattr(c, name, v)
            elif name == "opacity":
                c.opacity = float(rat(v))
            elif name in ("rgba", "argb", "rgb", "bgr"):
                setattr(c, name, pack(name, v))
                if getattr(c, name) & 0xFFFFFFFF != pack(name, v):
                    dis.append({"clause": "PackRoundTrip", "detail": "after c.%s = %#x, c.%s = %#x" % (name, pack(name, v), name, getattr(c, name))})
            elif name == "hexrt":
                c = svg.Color(c.hex)
            elif name == "hue":
                c.hue = float(rat(v))
            elif name == "saturation":
                c.saturation = float(rat(v))
            elif name == "lightness":
                c.lightness = float(rat(v))
    except engine.CaseTimeout:
        raise
    except Exception as e:
        return [{"clause": "Raises", "detail": "accessor history %s on %s raised %s: %s" % (hist, start, type(e).__name__, str(e)[:60])}]
    got = (c.red, c.green, c.blue, c.alpha)
    what = "Color%s after %s" % (tuple(start), [(n, v if isinstance(v, int) else (float(rat(v)) if len(v) == 2 else v)) for n, v in hist])
    if note == "" and case.get("hslv"):
        ht, st_, lt = [float(rat(x)) for x in case["hslv"]]
        try:
            gh, gs, gl = c.hue, c.saturation, c.lightness
            if abs(gs - st_) > 1e-9 or abs(gl - lt) > 1e-9 or (st_ > 0 and min(abs(gh - 360 * ht), 360 - abs(gh - 360 * ht)) > 1e-6):
                dis.append({"clause": "HslRead", "detail": "%s: hue/saturation/lightness read (%r, %r, %r), colour %s has (%r, %r, %r)" % (
                    what, gh, gs, gl, got, 360 * ht, st_, lt)})
        except Exception as e:
            dis.append({"clause": "HslRead", "detail": "%s: reading hsl raised %s" % (what, type(e).__name__)})
    if note == "":
        if list(got) != list(col):
            dis.append({"clause": "SetterIsolation", "detail": "%s = %s, expected %s" % (what, got, col), "setter": hist[-1][0] if hist else ""})
    elif note == "alpha_unspecified":
        if list(got[:3]) != list(col[:3]):
            dis.append({"clause": "SetterIsolation", "detail": "%s = %s, expected rgb %s" % (what, got, col[:3]), "setter": hist[-1][0]})
    elif note == "alpha_rounds":
        w = rat(hist[-1][1]) * 255
        if list(got[:3]) != list(col[:3]) or not (math.floor(w) <= got[3] <= math.ceil(w)):
            dis.append({"clause": "SetterIsolation", "detail": "%s = %s, expected rgb %s and alpha %s rounded" % (what, got, col[:3], float(w)), "setter": "opacity"})
    elif note == "hsl_write":
        name, v = hist[-1]
        want = float(rat(v))
        h0, s0, l0 = hsl_before
        h1, s1, l1 = hsl_of(c)
        tol = 0.03
        probs = []
        if got[3] != before[3]:
            probs.append("alpha changed from %d to %d" % (before[3], got[3]))
        # 8-bit quantisation destroys hue/saturation information near black, white and grey:
        # cross-component claims are only checked where they are robust
        grey_before = not (0.15 <= l0 <= 0.85 and s0 >= 0.25)
        if name == "hue":
            if not grey_before and (abs(s1 - s0) > tol or abs(l1 - l0) > tol):
                probs.append("saturation/lightness changed from (%.3f, %.3f) to (%.3f, %.3f)" % (s0, l0, s1, l1))
            if not grey_before and min(abs(h1 - want), 360 - abs(h1 - want)) > 3.0:
                probs.append("hue reads back %.2f" % h1)
            if s0 == 0 and got[:3] != before[:3]:
                probs.append("a grey changed colour when only its hue was written: %s -> %s" % (before, got))
        elif name == "saturation":
            if abs(l1 - l0) > tol:
                probs.append("lightness changed from %.3f to %.3f" % (l0, l1))
            if 0.15 <= l0 <= 0.85 and abs(s1 - want) > tol:
                probs.append("saturation reads back %.3f" % s1)
            if not grey_before and l0 not in (0, 1) and min(abs(h1 - h0), 360 - abs(h1 - h0)) > 3.0 and s1 > 0.05:
                probs.append("hue changed from %.2f to %.2f" % (h0, h1))
        elif name == "lightness":
            if abs(l1 - want) > tol:
                probs.append("lightness reads back %.3f" % l1)
            if not grey_before and abs(s1 - s0) > 0.08 and 0.05 < want < 0.95:
                probs.append("saturation changed from %.3f to %.3f" % (s0, s1))
            if not grey_before and min(abs(h1 - h0), 360 - abs(h1 - h0)) > 3.0 and s1 > 0.05 and 0.05 < l1 < 0.95:
                probs.append("hue changed from %.2f to %.2f" % (h0, h1))
        for pr in probs:
            dis.append({"clause": "HslWrite", "setter": name, "detail": "%s: %s" % (what, pr), "alpha_only": pr.startswith("alpha changed")})
    for d in dis:
        d["mode"] = "acc"
    return dis


def check_case(case):
    if case["mode"] == "acc":
        dis = check_acc(case)
        cls = "acc:" + ">".join(h[0] for h in case["hist"])
    else:
        dis = check_spelling(case)
        cls = case["mode"]
    return {"dis": dis, "nontrivial": case["mode"] != "acc" or len(case["hist"]) >= 1, "class": cls,
            "checked": ["Value", "Accessor", "HexRoundTrip"] if case["mode"] != "acc" else ["SetterIsolation", "HslWrite", "PackRoundTrip"]}


def cases_from_dump(path):
    n = 0
    for st in engine.read_dump(path):
        n += 1
        yield {"mode": st["mode"], "arg": st["arg"], "col": st["col"], "hist": st["hist"], "note": st["note"], "hslv": st["hslv"], "n": n}


def run(tier, seed):
    run = engine.Run("C13", tier, seed)
    work = engine.workdir("C13")
    try:
        consts = {"Full": "FALSE", "MaxSet": 2} if tier == "quick" else {"Full": "TRUE", "MaxSet": 3}
        res = engine.run_tlc(work, "MC_C13", constants=consts, invariants=["HexRoundTrip", "GreyHasNoSaturation", "HslInverse"],
                             cfg_extra=["PROPERTY SetterIsolation"])
        run.add_tlc(res, "Color spellings + accessor histories, %s" % consts)
        bymode = {}
        n = 0
        for case, r in engine.replay("harness.c13", cases_from_dump(res["dump"]), chunk=1000):
            key = "%s:%s:%s" % (case["mode"], case["arg"], case["hist"])
            run.record(case, r, key=key)
            bymode[case["mode"]] = bymode.get(case["mode"], 0) + 1
            if n % 15000 == 9:
                run.sample({k: case[k] for k in ("mode", "arg", "col", "hist", "note")})
            n += 1
        # beyond the exhaustive bound: accessor histories of 4..8 writes
        sres, vals = engine.simulate_cases(work, "MC_C13", {"Full": "TRUE", "MaxSet": 8}, num=(3 if tier == "quick" else 100), depth=10,
                                           seed=seed + 1, init="InitAcc")
        run.add_tlc(sres, "accessor histories of 4-8 writes by TLC -simulate (%d behaviours)" % sres["behaviours"])
        sim = [{"mode": "acc", "arg": v[1], "col": v[2], "hist": v[3], "note": v[4], "hslv": v[5], "n": i} for i, v in enumerate(vals)]
        for case, r in engine.replay("harness.c13", sim, chunk=500):
            run.record(case, r, key="acc:%s:%s" % (case["arg"], case["hist"]))
        bymode["acc_simulated"] = len(sim)
        run.extra["cases_by_mode"] = bymode
        run.extra["exhaustive"] = True
    finally:
        engine.cleanup(work)
    run.rule = ("cases = states of MC_C13: 147 keywords (4 letter-case variants each, plus none/transparent), all 3- and 4-digit hex strings, "
                "6-/8-digit hex on a byte grid, rgb()/rgba() over numbers and percentages incl. out-of-range/fractional/negative, hsl()/hsla(), "
                "and accessor write histories; every case distinct")
    run.assumptions = ["real-valued channels may be rounded up or down (CSS does not fix the rounding)",
                       "after writing hue/saturation/lightness the other two HSL components may move by 0.03 (8-bit quantisation)",
                       "the alpha left by the 24-bit rgb/bgr packed setters is unspecified"]
    return run.finish()


def replay_case(case):
    worker_init()
    return check_case(case)
