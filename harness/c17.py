"""C17 - appending path data continues the parse.

MC_C17 = PathInterp + Split (forget the interpreter state, reconstruct it from the stored
segments).  Every state with at least one cut is a history of appends: the data is cut at the
recorded command boundaries and the pieces are appended to a real Path with +, +=, parse(),
segment + str, Path + Path (when the piece starts with an absolute move) and Path + Shape.
Expected segments are the specification's unsplit segs."""
from copy import copy
from . import engine
from .pathutil import hist_to_d, compare_segs, connectivity, project

svg = None


def worker_init():
    global svg
    svg = engine.import_lib()


def pieces(hist, cuts):
    out, prev = [], 0
    for c in list(cuts) + [len(hist)]:
        out.append(hist[prev:c])
        prev = c
    return out


def nsegs(h):
    return sum(2 if c[3] else 1 for c in h)


def check_case(case):
    hist, segs, cuts = case["hist"], case["segs"], case["cuts"]
    ps = pieces(hist, cuts)
    ds = [hist_to_d(p) for p in ps]
    dis = []

    def cmp(name, build):
        try:
            p = build()
        except Exception as e:
            dis.append({"clause": name + ":Raises", "detail": "%s: %s (pieces %r)" % (type(e).__name__, e, ds)})
            return
        if not isinstance(p, svg.Path):
            dis.append({"clause": name + ":Type", "detail": "result is %s" % type(p).__name__})
            return
        for x in compare_segs(svg, p, segs) + connectivity(p):
            x["clause"] = name + ":" + x["clause"]
            x["detail"] += " (pieces %r)" % (ds,)
            dis.append(x)

    def iadd():
        p = svg.Path(ds[0])
        for b in ds[1:]:
            p += b
        return p

    def add():
        p = svg.Path(ds[0])
        for b in ds[1:]:
            q = p + b
            if q is p:
                raise AssertionError("+ returned its operand")
            p = q
        return p

    def parse():
        p = svg.Path(ds[0])
        for b in ds[1:]:
            p.parse(b)
        return p

    def extend():
        p = svg.Path(ds[0])
        for b in ds[1:]:
            p.extend(b) if len(svg.Path(b)) != 1 else p.append(b)
        return p
    def kw_add():           # the left operand built with the keyword form Path(d=...)
        p = svg.Path(d=ds[0])
        for b in ds[1:]:
            p = p + b
        return p

    def kw_iadd():
        p = svg.Path(d=ds[0])
        for b in ds[1:]:
            p += b
        return p
    def iadd_measured():      # the path is measured and walked between the pieces: what was appended later still counts
        p = svg.Path(ds[0])
        for b in ds[1:]:
            try:
                p.length(error=1e-3)
                p.point(0.5, error=1e-3)
            except engine.CaseTimeout:
                raise
            except Exception:
                pass          # (fragments without a start point cannot be measured: C09's finding)
            p += b
        try:
            fresh = svg.Path(*[copy(g) for g in p]) if len(p) != 1 else svg.Path(copy(p[0]))
            L1, L2 = p.length(error=1e-3), fresh.length(error=1e-3)
        except engine.CaseTimeout:
            raise
        except Exception:
            return p
        if abs(L1 - L2) > 1e-9 * max(1.0, abs(L2)):
            raise AssertionError("measured between the pieces, the path reports length %r; its segments measure %r" % (L1, L2))
        return p
    cmp("iadd", iadd)
    cmp("iadd_measured", iadd_measured)
    cmp("add", add)
    cmp("parse", parse)
    cmp("kw_add", kw_add)
    cmp("kw_iadd", kw_iadd)
    checked = ["iadd", "add", "parse", "kw_add", "kw_iadd"]
    # "equal Path(a b)" literally: the same data in a unit that needs 13 significant digits, joined piecewise and parsed
    # in one go - both results come from the same arithmetic, so every coordinate must be identical (no tolerance)
    U = 1234.567890123

    def scaled_d(piece):
        out = []
        for c in piece:
            letter, args = c[0], c[1]
            if letter.upper() == "A":
                nums = [repr(args[0] * U), repr(args[1] * U), repr(args[2]), str(args[3]), str(args[4])] + [repr(a * U) for a in args[5:]]
            else:
                nums = [repr(a * U) for a in args]
            out.append((letter if not c[2] else "") + " " + " ".join(nums) + (" z" if c[3] else ""))
        return " ".join(out).strip()
    try:
        sds = [scaled_d(p) for p in ps]
        if all(d and d[0].isalpha() for d in sds):
            whole = svg.Path(" ".join(sds))

            def flat(path):
                return [(type(g).__name__,) + tuple(None if q is None else (q.x, q.y) for q in g) for g in path]
            forms = [("iadd", lambda: iadd_of(sds)), ("add", lambda: add_of(sds))]
            if len(ps[0]) == 1 and not ps[0][0][3]:
                forms.append(("segment_add", lambda: segadd_of(sds)))

            def iadd_of(dd):
                q = svg.Path(dd[0])
                for b in dd[1:]:
                    q += b
                return q

            def add_of(dd):
                q = svg.Path(dd[0])
                for b in dd[1:]:
                    q = q + b
                return q

            def segadd_of(dd):
                q = svg.Path(dd[0])[0] + dd[1]
                for b in dd[2:]:
                    q = q + b
                return q
            want = flat(whole)
            for name, fn in forms:
                got = flat(fn())
                if got != want:
                    i = next((j for j, (a, b) in enumerate(zip(got, want)) if a != b), min(len(got), len(want)))
                    dis.append({"clause": name + ":NotIdentical", "detail": "joined piecewise %r differs from the single parse at segment %d: %r vs %r" % (
                        sds, i, got[i] if i < len(got) else None, want[i] if i < len(want) else None)})
    except engine.CaseTimeout:
        raise
    except Exception as e:
        pass        # (the integer-coordinate forms above report exceptions)
    if len(ps[0]) == 1 and not ps[0][0][3]:
        def segadd():
            p = svg.Path(ds[0])[0] + ds[1]
            for b in ds[2:]:
                p = p + b
            return p
        cmp("segment_add", segadd)
        checked.append("segment_add")
    parts = case.get("parts")
    if parts and all(v for v, _ in parts):
        # Path(a) + Path(b): both geometries unchanged - expected = each piece interpreted on its own
        alone = []
        for _, sg in parts:
            alone += sg

        def cmp2(name, build):
            try:
                p = build()
            except Exception as e:
                dis.append({"clause": name + ":Raises", "detail": "%s: %s (pieces %r)" % (type(e).__name__, e, ds)})
                return
            for x in compare_segs(svg, p, alone):
                x["clause"] = name + ":" + x["clause"]
                x["detail"] += " (pieces as separate Paths %r)" % (ds,)
                dis.append(x)

        def pathadd():
            p = svg.Path(ds[0])
            for b in ds[1:]:
                p = p + svg.Path(b)
            return p

        def pathiadd():
            p = svg.Path(ds[0])
            for b in ds[1:]:
                p += svg.Path(b)
            return p
        def subadd():
            p = svg.Path(ds[0])
            for b in ds[1:]:
                q = svg.Path(b)
                p += svg.Subpath(q, 0, len(q) - 1)
            return p
        cmp2("path_add", pathadd)
        cmp2("path_iadd", pathiadd)
        cmp2("path_iadd_subpath", subadd)
        checked += ["path_add", "path_iadd", "path_iadd_subpath"]
    # operands are not modified by +
    try:
        a = svg.Path(ds[0])
        before = project(a)
        _ = a + ds[1]
        if project(a) != before:
            dis.append({"clause": "add:OperandModified", "detail": "Path(a) changed by Path(a)+b, pieces %r" % (ds,)})
    except Exception:
        pass
    return {"dis": dis, "nontrivial": True,
            "class": "|".join(">".join(c[0] + ("z" if c[3] else "") for c in p) for p in ps), "checked": checked, "pieces": ds}


SHAPES = None


def check_shape_case(case):
    """Path(a) + Shape: both geometries unchanged (the shape begins with a move)."""
    hist, segs = case["hist"], case["segs"]
    a = hist_to_d(hist)
    dis = []
    shapes = [svg.Rect(1, 2, 5, 4), svg.Rect(0, 0, 6, 4, 1, 1), svg.Circle(3, 3, 2), svg.Ellipse(1, 1, 4, 2),
              svg.SimpleLine(1, 2, 3, 5), svg.Polyline((0, 0), (3, 4), (6, 0)), svg.Polygon((0, 0), (3, 4), (6, 0)),
              svg.Path("M1,1L2,3z"),
              # operands that carry a transform of their own are drawn where that transform puts them
              svg.Rect(1, 2, 5, 4, transform="scale(2,3)"), svg.Polyline((0, 0), (3, 4), (6, 0), transform="translate(4,5)"),
              svg.Path("M1,1L2,3z", transform="translate(4,5) scale(2)"), svg.Path("M1,1 Q2,3 4,1 z") * svg.Matrix(0, 1, -1, 0, 3, 0),
              # ... that the shape cannot absorb into its own attributes (a rotated or sheared rect / ellipse)
              svg.Rect(0, 0, 2, 1, transform="rotate(90)"), svg.Ellipse(1, 1, 4, 2, transform="skewX(30) translate(2,1)"), svg.Circle(3, 3, 2, transform="scale(-1, 2)"),
              # ... and whose data is written with relative commands (a relative first move is absolute, SVG 9.3.3)
              svg.Path("m1,1 l1,2 l-2,3 z", transform="translate(100,0)"), svg.Path("m2,1 q1,2 3,0 z m 5,5 l 1,1") * svg.Matrix(2, 0, 0, 3, -7, 4)]
    for sh in shapes:
        for name, op in (("path_add_shape", lambda p, s: p + s), ("path_iadd_shape", lambda p, s: p.__iadd__(s))):
            try:
                p = op(svg.Path(a), copy(sh))
            except Exception as e:
                dis.append({"clause": name + ":Raises", "detail": "%s %s on Path(%r) + %r" % (type(e).__name__, e, a, sh)})
                continue
            ref = abs(svg.Path(sh))
            got = project(p)
            want_tail = project(ref)
            n = len(segs)
            for x in compare_segs(svg, svg.Path(*list(p)[:n]) if n else svg.Path(), segs):
                x["clause"] = name + ":Head" + x["clause"]
                x["detail"] += " on Path(%r) + %r" % (a, sh)
                dis.append(x)
            tail = got[n:]
            if len(tail) != len(want_tail):
                dis.append({"clause": name + ":TailCount", "detail": "Path(%r) + %r: shape contributes %d segments, Path(shape) has %d" % (a, sh, len(tail), len(want_tail))})
            else:
                for i, (g, w) in enumerate(zip(tail, want_tail)):
                    same = g[0] == w[0] and all(
                        (u is None and v is None) or (u is not None and v is not None and abs(u[0] - v[0]) < 1e-9 and abs(u[1] - v[1]) < 1e-9)
                        for u, v in zip(g[2:], w[2:]))
                    if g[0] != "M" and i > 0:
                        same = same and g[1] is not None and abs(g[1][0] - w[1][0]) < 1e-9 and abs(g[1][1] - w[1][1]) < 1e-9
                    if not same:
                        dis.append({"clause": name + ":TailGeometry", "detail": "Path(%r) + %r: segment %d is %s, Path(shape) has %s" % (a, sh, n + i, g, w)})
                        break
    return {"dis": dis, "nontrivial": True, "class": "shape:" + ">".join(c[0] for c in hist), "checked": ["path_add_shape", "path_iadd_shape"]}


def dispatch(case):
    return check_shape_case(case) if case.get("shape") else check_case(case)


def cases_from_dump(path):
    for st in engine.read_dump(path):
        h, cuts = st["hist"], st["cuts"]
        if cuts and cuts[-1] < len(h):
            yield {"hist": h, "segs": st["segs"], "cuts": cuts,
                   "parts": st["parts"] + [[st["alone"][0], st["alone"][1][4]]]}
        elif not cuts and 1 <= len(h) <= 2:
            yield {"hist": h, "segs": st["segs"], "shape": True}


def run(tier, seed):
    run = engine.Run("C17", tier, seed)
    work = engine.workdir("C17")
    try:
        consts = {"MaxCmds": 3, "NVar": 2} if tier == "quick" else {"MaxCmds": 4, "NVar": 1}
        res = engine.run_tlc(work, "MC_C17", constants=consts, invariants=["Connected", "CloseReturns", "Reconstruct", "AbsMoveSame"],
                             cfg_extra=["PROPERTY SplitInvisible"], init="InitC")
        run.add_tlc(res, "PathInterp + Split, %s" % consts)
        n = 0
        for case, r in engine.replay("harness.c17_dispatch", cases_from_dump(res["dump"])):
            run.record(case, r, key=r["class"])
            if n % 2500 == 11:
                run.sample({"hist": case["hist"], "cuts": case.get("cuts"), "pieces": r.get("pieces"), "expected_segs": case["segs"]})
            n += 1
        # beyond the exhaustive bound: random behaviours of 7 commands with random cut sets
        sres, vals = engine.simulate_cases(work, "MC_C17", {"MaxCmds": 7, "NVar": 2}, num=(2 if tier == "quick" else 60), depth=16,
                                           seed=seed + 1, init="InitC")
        run.add_tlc(sres, "PathInterp + Split by TLC -simulate: %d behaviours of 7 commands" % sres["behaviours"])
        sim = [{"hist": v[1], "segs": v[2], "cuts": v[3], "parts": v[4]} for v in vals]
        for case, r in engine.replay("harness.c17_dispatch", sim):
            run.record(case, r, key=r["class"])
        run.extra["simulated_behaviours_replayed"] = len(sim)
    finally:
        engine.cleanup(work)
    run.rule = ("cases = states of MC_C17 with >=1 cut (history of appends; every command-boundary split set of every behaviour "
                "of <= MaxCmds commands) + Path(a)+Shape for every behaviour of <= 2 commands x 8 shapes; distinct = distinct "
                "sequence of pieces by command letters")
    run.assumptions = ["Path + Shape compares the appended tail with Path(shape) (the shape's own decomposition is property C06)"]
    return run.finish()


def replay_case(case):
    worker_init()
    return dispatch(case)
