"""C20 - writing a document and parsing it back preserves shapes and paint.

Documents: the geometry documents of MC_C03 and the paint documents of MC_C14 (DocCore rendering =
the oracle; WriterLaw is an invariant of the spec) and trees built through the constructors from
the spec's rendered shapes.  Each is written with string_xml / write_xml (plain, svgz), checked for
well-formedness, parsed back (reify True/False) and compared with the spec's rendering: same
shapes, order, geometry to six decimals, fill/stroke incl. alpha, stroke width, ids; the second
generation is compared with the first."""
import gzip
import io
import math
import os
import tempfile
import xml.etree.ElementTree as ET
from fractions import Fraction
from . import engine, docutil, c03, c06, c14, c16

svg = None
CASE_TIMEOUT = 10.0


def worker_init():
    global svg
    svg = engine.import_lib()
    for m in (c03, c06, c14, c16):
        m.svg = svg


def rat(q):
    return Fraction(q[0], q[1])


def shapes_of(d):
    return [e for e in d.elements() if isinstance(e, svg.Shape)]


def abs_points(s):
    """sampled absolute geometry of a shape: list of (kind, points at t = 0, .25, .5, .75, 1)"""
    res = []
    p = abs(svg.Path(s))
    for seg in p:
        if isinstance(seg, svg.Move):
            res.append(("M", [(seg.end.x, seg.end.y)]))
        else:
            pts = [(q.x, q.y) for q in (seg.point(t) for t in (0.0, 0.25, 0.5, 0.75, 1.0))]
            if isinstance(seg, svg.Arc) and isinstance(s, svg.Path):
                # arcs of a <path> travel through path data, whose radii and rotation Arc.d() prints with six significant
                # digits (the C07 finding): their interior points get that slack, the end points stay strict
                res.append(("A", pts, 5e-4 * max(seg.rx, seg.ry)))
            else:
                res.append((type(seg).__name__[0], pts))
    return res


def same_geometry(a, b, tol):
    if len(a) != len(b):
        return "segment count %d vs %d" % (len(a), len(b))
    for i, (sa, sb) in enumerate(zip(a, b)):
        ka, pa, kb, pb = sa[0], sa[1], sb[0], sb[1]
        if ka != kb:
            return "segment %d kind %s vs %s" % (i, ka, kb)
        slack = max(sa[2] if len(sa) > 2 else 0.0, sb[2] if len(sb) > 2 else 0.0)
        for j, ((x1, y1), (x2, y2)) in enumerate(zip(pa, pb)):
            t_ = tol if j in (0, len(pa) - 1) else max(tol, slack)
            if abs(x1 - x2) > t_ or abs(y1 - y2) > t_:
                return "segment %d point (%r, %r) vs (%r, %r)" % (i, x1, y1, x2, y2)
    return None


def paint_of(s):
    def col(c):
        return None if c is None or c.value is None else (c.red, c.green, c.blue, c.alpha)
    try:
        w = s.implicit_stroke_width
    except Exception:
        w = s.stroke_width
    return col(s.fill), col(s.stroke), w


def write_variants(d, k):
    out = [("string_xml", d.string_xml())]
    for ext in (".svg", ".svgz"):
        fd, name = tempfile.mkstemp(suffix=ext, dir=engine.WORKROOT)
        os.close(fd)
        try:
            d.write_xml(name)
            raw = open(name, "rb").read()
            if ext == ".svgz":
                try:
                    raw = gzip.decompress(raw)
                except Exception as e:
                    out.append(("write_xml" + ext, e))
                    continue
            out.append(("write_xml" + ext, raw.decode("utf8")))
        finally:
            os.remove(name)
    return out


def scale_of(shapes):
    """coordinate magnitude of the shapes (from their points: a shape that is a lone moveto has no bounding box)"""
    m = 1.0
    for s in shapes:
        try:
            for seg in abs_points(s):
                for q in seg[1]:
                    m = max(m, abs(q[0]), abs(q[1]))
        except engine.CaseTimeout:
            raise
        except Exception:
            bb = s.bbox()
            if bb:
                m = max(m, *[abs(v) for v in bb])
    return m


def roundtrip(d0, ref_shapes, label, expect_ids, dis, feats):
    """d0: a parsed or built document; ref_shapes: the shapes it renders (their geometry/paint are the reference)"""
    ref_geo = [abs_points(s) for s in ref_shapes]
    ref_paint = [paint_of(s) for s in ref_shapes]
    tol = 2e-6 * scale_of(ref_shapes) * 10
    try:
        variants = write_variants(d0, 0)
    except engine.CaseTimeout:
        raise
    except Exception as e:
        dis.append({"clause": "WriteRaises", "detail": "%s: writing raised %s: %s" % (label, type(e).__name__, str(e)[:80])})
        return
    for name, text in variants:
        what = "%s via %s" % (label, name)
        if isinstance(text, Exception):
            dis.append({"clause": "WriteUnreadable", "writer": name, "detail": "%s: cannot read the written file back: %s" % (what, text)})
            continue
        try:
            ET.fromstring(text)
        except ET.ParseError as e:
            dis.append({"clause": "NotWellFormed", "writer": name, "detail": "%s: written text is not well-formed XML (%s): %s" % (what, e, text[:200])})
            continue
        for reify in (True, False):
            try:
                d1 = svg.SVG.parse(io.StringIO(text), reify=reify)
                got = shapes_of(d1)
            except engine.CaseTimeout:
                raise
            except Exception as e:
                dis.append({"clause": "ReparseRaises", "writer": name, "detail": "%s: parsing the written text raised %s: %s  [%s]" % (what, type(e).__name__, str(e)[:60], text[:300])})
                continue
            def kind_of(x):
                # a circle that was reified under a non-uniform scale has two radii and can only be written as an ellipse:
                # circle and ellipse are one kind of shape here, the geometry comparison below tells them apart
                n = type(x).__name__
                return "round" if n in ("Circle", "Ellipse") else n
            if len(got) != len(ref_shapes) or [kind_of(g) for g in got] != [kind_of(r) for r in ref_shapes]:
                dis.append({"clause": "ShapesChanged", "writer": name, "detail": "%s (reify=%s): %s written, read back as %s  [%s]" % (
                    what, reify, [type(r).__name__ for r in ref_shapes], [type(g).__name__ for g in got], text[:400])})
                continue
            for i, (g, rg, rp) in enumerate(zip(got, ref_geo, ref_paint)):
                try:
                    diff = same_geometry(abs_points(g), rg, tol)
                except Exception as e:
                    diff = "raised %s" % type(e).__name__
                if diff:
                    dis.append({"clause": "GeometryChanged", "writer": name, "shape": type(g).__name__,
                                "detail": "%s (reify=%s): shape %d (%s) moved: %s  [%s]" % (what, reify, i, type(g).__name__, diff, text[:500])})
                    break
                gp = paint_of(g)
                if gp[0] != rp[0] or gp[1] != rp[1]:
                    dis.append({"clause": "PaintChanged", "writer": name, "detail": "%s (reify=%s): shape %d fill/stroke %r, written from %r  [%s]" % (what, reify, i, gp[:2], rp[:2], text[:400])})
                    break
                if rp[1] is not None and (gp[2] is None or abs(gp[2] - rp[2]) > 1e-5 * max(1.0, rp[2])):
                    dis.append({"clause": "StrokeWidthChanged", "writer": name, "detail": "%s (reify=%s): shape %d stroke width %r, written from %r  [%s]" % (what, reify, i, gp[2], rp[2], text[:400])})
                    break
                if expect_ids and g.id != ref_shapes[i].id:
                    dis.append({"clause": "IdChanged", "writer": name, "detail": "%s: shape %d id %r, written from %r" % (what, i, g.id, ref_shapes[i].id)})
                    break
            if reify and name == "string_xml":
                # second generation: write(parse(write(x))) is geometrically write(x)
                try:
                    text2 = d1.string_xml()
                    d2 = svg.SVG.parse(io.StringIO(text2))
                    g2 = shapes_of(d2)
                    if len(g2) != len(got):
                        dis.append({"clause": "SecondGeneration", "detail": "%s: second generation has %d shapes, first %d" % (what, len(g2), len(got))})
                    else:
                        for i, (a, b) in enumerate(zip(g2, got)):
                            diff = same_geometry(abs_points(a), abs_points(b), tol)
                            if diff or paint_of(a)[:2] != paint_of(b)[:2]:
                                dis.append({"clause": "SecondGeneration", "detail": "%s: shape %d differs between generation 1 and 2: %s" % (what, i, diff or "paint")})
                                break
                except engine.CaseTimeout:
                    raise
                except Exception as e:
                    dis.append({"clause": "SecondGeneration", "detail": "%s: second generation raised %s: %s" % (what, type(e).__name__, str(e)[:60])})


def build_tree(out, vb, units=False):
    """a document built through the constructors from the spec's rendered shapes"""
    if units:       # "lengths with units": the size of the viewport in inches / points
        root = svg.SVG(viewBox=vb, width="2in", height="72pt")
    else:
        root = svg.SVG(viewBox=vb, width=200, height=100) if vb else svg.SVG()
    grp = svg.Group(id="built")
    root.append(grp)
    for i, o in enumerate(out):
        kind, geo, ctm = o[0], o[1], o[2]
        M = svg.Matrix(*[float(rat(v)) for v in ctm])
        # the geometry abstraction as a path in user space, carrying the shape's full transform
        segs = []
        for closed, fp, edges in geo:
            segs.append(svg.Move(None, svg.Point(float(rat(fp[0])), float(rat(fp[1])))))
            for e in edges:
                s_, e_ = [float(rat(e[1][0])), float(rat(e[1][1]))], [float(rat(e[4][0])), float(rat(e[4][1]))]
                if e[0] == "L":
                    segs.append(svg.Line(svg.Point(*s_), svg.Point(*e_)))
                elif e[0] == "Q":
                    segs.append(svg.QuadraticBezier(svg.Point(*s_), svg.Point(float(rat(e[2][0])), float(rat(e[2][1]))), svg.Point(*e_)))
                elif e[0] == "A":
                    segs.append(svg.Arc(svg.Point(*s_), float(rat(e[2][0])), float(rat(e[2][1])), 0, 0, 1, svg.Point(*e_)))
            if closed:
                segs.append(svg.Close(svg.Point(segs[-1].end), svg.Point(float(rat(fp[0])), float(rat(fp[1])))))
        p = svg.Path(*segs) if len(segs) != 1 else svg.Path(segs[0])
        p.transform = M
        if units and i % 2 == 0:
            # a translation still given in units ("lengths with units"); units == "resolved" builds the same tree in pixels
            # (the library cannot multiply a matrix that holds a Length - finding C04 - so the shape's own map is realised first)
            p.reify()
            p.transform = svg.Matrix("translate(0.25in, 12pt)" if units is True else "translate(24, 16)")
        p.id = "s%d" % i
        j = i + len(out)
        p.fill = svg.Color(["red", "none", "#0000ff80", "lime", "#ff000000", "transparent"][j % 6])
        # (five strokes against six fills: every pairing of opaque / translucent / transparent / none paints comes up)
        p.stroke = svg.Color(["none", "blue", "#00800040", "black", "#12345601"][(j + j // 6) % 5])
        p.stroke_width = [1.0, 2.5, 0.5, 3.0, 2.0, 4.0][j % 6]
        if units and i % 2 == 1:
            # a stroke width still given in units; the "resolved" twin of the tree carries the value the reader will compute
            p.stroke_width = svg.Length("2mm") if units is True else svg.Length("2mm").value(ppi=96.0)
        (grp if i % 2 else root).append(p)
    return root


def check_case(case):
    dis = []
    doc, out = case["doc"], case["out"]
    k = case["n"] + case["seed"]
    if case["src"] == "geometry":
        xml = docutil.to_xml(doc, k)
        kw = c03.parse_kwargs(case["cfg"], k)
    else:
        xml = docutil.to_xml(doc, k, paint_attrs=c14.paint_attrs, prolog=c14.sheet_text(case["sheet"], k))
        kw = {"color": case["callerColor"]}
    feats = c03.features(doc)
    for reify in (True, False):
        try:
            d0 = svg.SVG.parse(io.StringIO(xml), reify=reify, **kw)
            ref = shapes_of(d0)
        except engine.CaseTimeout:
            raise
        except Exception:
            continue        # parsing itself is C03's / C10's business
        roundtrip(d0, ref, "parse(reify=%s%s) of %s" % (reify, "" if not kw.get("transform") else ", transform=" + kw["transform"], xml), True, dis, feats)
    if case["src"] == "geometry" and out and case["n"] % 4 == 0:
        for vb in (None, "0 0 100 50", "-10 5 50 25", "units"):
            try:
                t = build_tree(out, "0 0 100 50", units=True) if vb == "units" else build_tree(out, vb)
                ref = shapes_of(build_tree(out, "0 0 100 50", units="resolved") if vb == "units" else t)
            except engine.CaseTimeout:
                raise
            except Exception as e:
                dis.append({"clause": "BuildRaises", "detail": "building a tree from %d shapes raised %s: %s" % (len(out), type(e).__name__, str(e)[:60])})
                continue
            roundtrip(t, ref, "built tree (viewBox=%s) of %s" % (vb, [o[0] for o in out]), True, dis, feats + ["built"])
    for x in dis:
        x["features"] = feats
        x["xml"] = xml
    return {"dis": dis, "nontrivial": len(out) >= 1, "class": case["src"] + ":" + "|".join(t[0] for t in doc), "xml": xml,
            "checked": ["NotWellFormed", "ShapesChanged", "GeometryChanged", "PaintChanged", "StrokeWidthChanged", "IdChanged", "SecondGeneration"]}


def cases(dump3, dump14, seed, stride):
    n = 0
    for st in engine.read_dump(dump3):
        n += 1
        if n % stride == 0 and st["out"]:
            yield {"src": "geometry", "doc": st["doc"], "cfg": st["cfg"], "out": st["out"], "n": n, "seed": seed}
    for st in engine.read_dump(dump14):
        n += 1
        if n % 3 == 0:
            yield {"src": "paint", "doc": st["doc"], "sheet": st["sheet"], "callerColor": st["callerColor"], "out": st["out"], "n": n, "seed": seed}


def run(tier, seed):
    run = engine.Run("C20", tier, seed)
    work = engine.workdir("C20")
    try:
        consts = {"MaxTok": 4, "Full": "FALSE"} if tier == "quick" else {"MaxTok": 4, "Full": "TRUE"}
        res = engine.run_tlc(work, "MC_C03", constants=consts, invariants=["WriterLaw", "CompleteIsBalanced"], timeout=7200)
        run.add_tlc(res, "DocCore geometry documents (WriterLaw), %s" % consts)
        res2 = engine.run_tlc(work, "MC_C14", constants={}, invariants=["OneShape", "DisplayLaw"])
        run.add_tlc(res2, "DocPaint documents")
        stride = 17 if tier == "quick" else 3
        n = 0
        for case, r in engine.replay("harness.c20", cases(res["dump"], res2["dump"], seed, stride), chunk=40):
            run.record(case, r, key=r.get("xml", str(case["doc"])) + str(case.get("cfg")))
            if n % 800 == 5:
                run.sample({"xml": r.get("xml"), "source": case["src"]})
            n += 1
        # generated documents (harness/docgen.py), rendered by TLC; same round trip
        import json
        import os
        import random
        from . import docgen
        rng = random.Random(seed * 6007 + 20)
        ndocs = 400 if tier == "quick" else 8000
        docs = [docgen.gen_doc(rng, rng.randint(1, 10)) for _ in range(ndocs)]
        df = os.path.join(work, "docs.json")
        with open(df, "w") as f:
            json.dump(docs, f)
        gres = engine.run_tlc(work, "MC_C03", constants={"MaxTok": 0, "Full": "FALSE"}, init="InitGen", next_="NextGen", env={"DOCS_FILE": df}, timeout=7200)
        run.add_tlc(gres, "DocCore!RenderDoc on %d generated documents" % ndocs)
        def moderate(out):
            # the writer prints matrices with six decimals: the promised precision is relative to transforms of ordinary size,
            # so documents whose accumulated transforms are very small or very large are left to C03
            for o in out:
                ent = [abs(x[0] / x[1]) for x in o[2][:4] if x[0] != 0]
                if ent and (min(ent) < 0.05 or max(ent) > 200):
                    return False
            return True
        gen = [{"src": "geometry", "doc": st["doc"], "cfg": st["cfg"], "out": st["out"], "n": 100000 + i, "seed": seed}
               for i, st in enumerate(engine.read_dump(gres["dump"])) if st["out"] and moderate(st["out"])]
        for case, r in engine.replay("harness.c20", gen, chunk=40):
            run.record(case, r, key=r.get("xml", str(case["doc"])) + str(case.get("cfg")))
        run.extra["generated_documents"] = len(gen)
    finally:
        engine.cleanup(work)
    run.rule = ("cases = every %d-th rendering geometry document of MC_C03 (parsed with its caller configuration) and every 3rd paint document of MC_C14, each parsed "
                "with reify True/False, written by string_xml / write_xml .svg / .svgz, re-parsed with reify True/False; every 4th also as a constructor-built tree "
                "under 3 viewBox settings; second generation compared with the first") % (17 if tier == "quick" else 3)
    run.assumptions = ["reference = the shapes of the source tree itself (their agreement with the spec's rendering is C03 / C14)",
                       "geometry tolerance 2e-5 x coordinate magnitude (six-decimal matrices)"]
    return run.finish()


def replay_case(case):
    worker_init()
    return check_case(case)
