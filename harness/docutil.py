"""Shared by the document checks (C03 C10 C14 C20): token sequences of DocCore.tla -> XML text."""
from fractions import Fraction

TF_STR = {0: None, 1: "translate(10,20)", 2: "scale(2,3)", 3: "rotate(90)", 4: "skewX(36.86989764584402)", 5: "scale(-1,1)",
          6: "rotate(53.13010235415598) scale(2,3)", 7: "scale(-2,3)"}
TF_ALT = {1: "translate(10 20)", 2: "scale(2 , 3)", 3: "rotate(90deg)", 4: "skewx(0.6435011087932844rad)", 5: "matrix(-1,0,0,1,0,0)",
          6: "rotate(53.13010235415598)scale(2,3)", 7: "matrix(-2 0 0 3 0 0)"}
PATH_D = {1: "M0,0 L10,0 L10,10 z", 2: "M5,5 Q9,1 12,8"}


def rat(q):
    return Fraction(q[0], q[1])


def num(fr):
    fr = Fraction(fr)
    return str(fr.numerator) if fr.denominator == 1 else repr(float(fr))


def length(l, k=0):
    kind, v = l
    if kind == "none":
        return None
    v = rat(v)
    if kind == "pct":
        return num(v) + "%"
    opts = [num(v), num(v) + "px"]
    if v.denominator == 1 and v.numerator % 48 == 0 and v != 0:
        opts += ["%sin" % num(v / 96), "%spt" % num(v * 3 / 4), "%spc" % num(v / 16)]
    return opts[k % len(opts)]


def attrs_of(tok, k=0, paint_attrs=None):
    tag, id_, tf, disp, geo, paint = tok
    a = []
    if id_:
        a.append(("id", id_))
    if tf:
        a.append(("transform", (TF_ALT if k % 2 else TF_STR)[tf] or TF_STR[tf]))
    if disp:
        a.append(("display", "none") if k % 2 == 0 else ("style", "display:none"))

    def put(name, l, kk=0):
        s = length(l, k + kk)
        if s is not None:
            a.append((name, s))
    if tag == "svg":
        put("x", geo[0]); put("y", geo[1], 1); put("width", geo[2], 2); put("height", geo[3], 3)
        if geo[4] != []:
            a.append(("viewBox", " ".join(num(rat(v)) for v in geo[4])))
        al, mos = geo[5]
        if (al, mos) != ("xMidYMid", "") or k % 3 == 0:
            a.append(("preserveAspectRatio", (al + " " + mos).strip()))
    elif tag == "use":
        a.append((("href" if k % 2 else "xlink:href"), "#" + geo[0]))
        put("x", geo[1]); put("y", geo[2], 1)
    elif tag == "rect":
        for nm, l in zip(("x", "y", "width", "height", "rx", "ry"), geo):
            put(nm, l)
    elif tag == "circle":
        for nm, l in zip(("cx", "cy", "r"), geo):
            put(nm, l)
    elif tag == "ellipse":
        for nm, l in zip(("cx", "cy", "rx", "ry"), geo):
            put(nm, l)
    elif tag == "line":
        for nm, l in zip(("x1", "y1", "x2", "y2"), geo):
            put(nm, l)
    elif tag in ("polyline", "polygon"):
        a.append(("points", " ".join("%s,%s" % (num(rat(p[0])), num(rat(p[1]))) for p in geo)))
    elif tag == "path":
        a.append(("d", PATH_D[geo[0]]))
    elif tag == "image":
        for nm, l in zip(("x", "y", "width", "height"), geo):
            put(nm, l)
        a.append(("xlink:href", "picture.png"))
    if paint_attrs:
        a += paint_attrs(tok)
    return a


def esc(s):
    return s.replace("&", "&amp;").replace('"', "&quot;").replace("<", "&lt;")


def to_xml(doc, k=0, paint_attrs=None, prolog=""):
    """doc: token list (containers closed by 'end' tokens; missing closes are added)"""
    out = []
    stack = []
    first = True
    for tok in doc:
        tag = tok[0]
        if tag == "end":
            out.append("</%s>" % stack.pop())
            continue
        a = attrs_of(tok, k, paint_attrs)
        if first:
            a = [("xmlns", "http://www.w3.org/2000/svg"), ("xmlns:xlink", "http://www.w3.org/1999/xlink")] + a
        s = "<%s%s" % (tag, "".join(' %s="%s"' % (n, esc(v)) for n, v in a))
        if tag in ("svg", "g", "defs"):
            out.append(s + ">")
            stack.append(tag)
            if first and prolog:
                out.append(prolog)
        else:
            out.append(s + "/>")
        first = False
    while stack:
        out.append("</%s>" % stack.pop())
    return "".join(out)
