"""C18 - copies and derived objects share no mutable state with their source.

MC_C18 (Alias.tla) enumerates (kind, derivation, history of public mutations on either side).
The harness builds the real object, derives, and after every step compares deep structural
snapshots: the side the specification leaves untouched (version counter not bumped) must be
unchanged.  Independently of the fixed mutation alphabet it evaluates the heap invariant
NoSharedMutable on the real object graph and, for every shared mutable object found, tries a
witness mutation through the derived side to show the source really changes."""
from copy import copy
import os
from . import engine

svg = None
CACHE_FIELDS = {"_length", "_lengths", "n"}


def worker_init():
    global svg
    svg = engine.import_lib()


# ---------------------------------------------------------------- construction

def make(kind):
    P = svg.Point
    if kind == "Point":
        return P(3, 4)
    if kind == "Matrix":
        return svg.Matrix(2, 0.5, -1, 3, 5, 7)
    if kind == "Color":
        return svg.Color("#336699")
    if kind == "Length":
        return svg.Length("5mm")
    if kind == "Move":
        return svg.Move(P(0, 0), P(3, 4))
    if kind == "Line":
        return svg.Line(P(1, 2), P(3, 4))
    if kind == "Close":
        return svg.Close(P(1, 2), P(3, 4))
    if kind == "QuadraticBezier":
        return svg.QuadraticBezier(P(1, 2), P(5, 9), P(3, 4))
    if kind == "CubicBezier":
        return svg.CubicBezier(P(1, 2), P(5, 9), P(-2, 6), P(3, 4))
    if kind == "Arc":
        return svg.Arc(P(1, 2), 8, 6, 30, False, True, P(5, -1))
    if kind == "Path":
        return svg.Path("M1,2 L3,4 Q5,9 7,1 z M9,9 C1,1 2,2 3,3 A8,6 30 0,1 9,2", fill="red", stroke="#00f", stroke_width=2, id="p1")
    if kind == "PathT":
        return svg.Path("M1,2 L3,4 Q5,9 7,1 z M9,9 l3,3", transform="rotate(30) translate(3,4)", stroke="green")
    if kind == "Subpath":
        return svg.Path("M1,2 L3,4 Q5,9 7,1 z M9,9 C1,1 2,2 3,3", fill="red").subpath(0)
    if kind == "Rect":
        return svg.Rect(1, 2, 30, 40, fill="red", stroke="blue", stroke_width=3, transform="scale(2,3)")
    if kind == "RRect":
        return svg.Rect(1, 2, 30, 40, 3, 4, stroke="blue", stroke_width=0)            # a zero width is a value, not "unset"
    if kind == "RectLen":
        return svg.Rect("10%", "5%", 30, 40, fill="red", stroke="blue", stroke_width=3, transform="scale(2,3)")
    if kind == "CircleLen":
        return svg.Circle("10%", "2em", 7, fill="#123456", transform="scale(2)")
    if kind == "Circle":
        return svg.Circle(5, 6, 7, fill="#123456", transform="translate(3,4)")
    if kind == "Ellipse":
        return svg.Ellipse(5, 6, 7, 3, stroke="red", stroke_width=2, transform="rotate(20) scale(3)")
    if kind == "SimpleLine":
        return svg.SimpleLine(1, 2, 3, 5, stroke="red", stroke_width=4)
    if kind == "Polyline":
        return svg.Polyline((0, 0), (3, 4), (6, 1), stroke="red", transform="scale(2)")
    if kind == "Polygon":
        return svg.Polygon((0, 0), (3, 4), (6, 1), fill="blue", stroke_width=0.0)
    if kind == "Group":
        g = svg.Group(id="g1", transform="translate(5,5)")
        g.append(svg.Rect(0, 0, 10, 10, fill="red"))
        g.append(svg.Path("M0,0 L5,5 z", stroke="blue", stroke_width=0))
        return g
    if kind == "GroupNested":
        g = svg.Group(id="outer")
        h = svg.Group(id="inner", transform="scale(2)")
        h.append(svg.Circle(1, 1, 4, fill="green"))
        h.append(svg.Polyline((0, 0), (1, 1), (2, 0)))
        g.append(h)
        g.append(svg.Ellipse(3, 3, 2, 1))
        return g
    if kind == "GroupMixed":
        g = svg.Group(id="mixed", transform="rotate(10)")
        g.append(svg.Text("label", x=5, y=7, fill="black"))
        g.append(svg.Image(href="a.png", x=0, y=0, width=4, height=4))
        h = svg.Group(id="deep")
        h.append(svg.Text("deep", x=1, y=1))
        h.append(svg.Path("M0,0 L3,3", stroke="red"))
        g.append(h)
        g.append(svg.Path("M1,1 Q2,2 3,1 z", fill="blue"))
        return g
    if kind == "TextLen":
        return svg.Text("hello", x="1in", y="2in", fill="red", transform="scale(2)")
    if kind == "ImageLen":
        return svg.Image(href="x.png", x="1in", y="10%", width="3in", height="4in", viewBox="0 0 30 40", transform="translate(1,1)")
    if kind == "MatrixLen":
        return svg.Matrix("translate(1in, 2in)")
    if kind == "Text":
        return svg.Text("hello", x=3, y=4, fill="red", stroke="blue", stroke_width=1.5, transform="scale(2)")
    if kind == "Image":
        return svg.Image(href="x.png", x=1, y=2, width=10, height=20, viewBox="0 0 100 200", transform="translate(1,1)")
    raise KeyError(kind)


M1 = (0, 2, -3, 0, 5, 7)


def derive(kind, op, x):
    if op == "copy":
        return copy(x)
    if op == "mul":
        return x * svg.Matrix(*M1)
    if op == "abs":
        return abs(x)
    if op == "topath":
        return svg.Path(x)
    if op == "inv":
        return ~x
    if op == "matmul":
        return x @ svg.Matrix(*M1)
    if op == "radd":
        return "M 20,20 L 21,22" + x
    if op == "pathadd":            # the segment is the RIGHT operand of Path + segment
        return svg.Path("M 20,20 L 21,22") + x
    if op == "addpath":            # segment + Path
        return x + svg.Path("L 30,31 L 32,30")
    if op == "pathaddview":        # a view of x is the right operand of Path + subpath: the sum holds copies of x's segments
        return svg.Path("M 20,20 L 21,22") + x.subpath(0)
    if op == "pathiadd":           # x (a path) is the right operand of Path += x
        left = svg.Path("M 20,20 L 21,22")
        left += x
        return left
    if op == "subadd":             # the segment is the RIGHT operand of Subpath + segment
        return svg.Path("M 20,20 L 21,22 M 1,1 L 2,2").subpath(0) + x
    if op == "addsub":             # segment + Subpath
        return x + svg.Path("L 30,31 L 32,30 M 1,1 L 2,2").subpath(0)
    if op == "mulid":
        return x * [svg.Matrix(), "scale(1)", "translate(0,0)", ""][len(kind) % 4]
    if op == "add":
        if kind in ("Path", "PathT"):
            return x + "L 9,9"
        if kind == "Point":
            return x + svg.Point(1, 1)
        if kind == "Length":
            return x + svg.Length("2mm")
        return x + svg.Line(svg.Point(3, 4), svg.Point(8, 8))
    raise KeyError(op)


def first_child_shape(g):
    for c in g:
        if isinstance(c, svg.Group):
            return first_child_shape(c)
        return c


def mutate(obj, m):
    """One public mutation; returns nothing.  Raises KeyError if not applicable to this object."""
    Mx = svg.Matrix(1, 0, 0, 1, 11, 13)
    if m == "setx":
        obj.x += 10
    elif m == "imul":
        obj *= Mx                       # in place for every Transformable / segment / Point
    elif m == "seta":
        obj.a = obj.a + 1
    elif m == "post_translate":
        obj.post_translate(3, 4)
    elif m == "reset":
        obj.reset()
    elif m == "imatmul":
        obj @= svg.Matrix(2, 0, 0, 2, 0, 0)
    elif m == "setred":
        obj.red = (obj.red + 17) % 256
    elif m == "setopacity":
        obj.opacity = 0.25
    elif m == "iadd":
        obj += svg.Length("1mm")
    elif m == "setamount":
        obj.amount = obj.amount + 1
    elif m == "imul_num":
        obj *= 3
    elif m == "setend":
        obj.end.x += 10
    elif m == "setstart":
        obj.start.y += 10
    elif m == "setpt":
        if hasattr(obj, "points"):
            obj.points[1].x += 10
        else:
            obj[1].end.x += 10
    elif m == "ptappend":
        obj.points.append(svg.Point(50, 50))
    elif m == "reify":
        obj.reify()
    elif m == "paint":
        c = obj.fill if getattr(obj, "fill", None) is not None and obj.fill.value is not None else obj.stroke
        if c is None or c.value is None:
            raise KeyError("no paint object")
        c.green = (c.green + 33) % 256
    elif m == "setfill":
        obj.fill = svg.Color("#010203")
    elif m == "sw":
        obj.stroke_width = 9.5
    elif m == "tredit":
        obj.transform.post_translate(7, 8)
    elif m == "values":
        obj.values["verif"] = "changed"
    elif m == "append":
        if isinstance(obj, svg.Group):
            obj.append(svg.Rect(9, 9, 1, 1))
        else:
            obj.append(svg.Line(None, svg.Point(40, 40)))
    elif m == "delete":
        del obj[len(obj) - 1]
    elif m == "setitem":
        obj[1] = svg.Line(svg.Point(1, 2), svg.Point(30, 30))
    elif m == "setid":
        obj.id = "changed"
    elif m == "reverse":
        obj.reverse()
    elif m == "iadd_str":
        obj += "l 1,1"
    elif m == "setgeom":
        for a in ("x", "cx", "x1"):
            if hasattr(obj, a):
                v = getattr(obj, a)
                setattr(obj, a, v * 2 if isinstance(v, svg.Length) else v + 10)
                return
        raise KeyError("no geometry attribute")
    elif m == "scalegeom":
        # the in-place operator of an attribute that is a Length (x="1in"): obj.x *= 2 mutates that Length object
        for a in ("x", "cx", "e"):
            if hasattr(obj, a):
                v = getattr(obj, a)
                if not isinstance(v, svg.Length):
                    raise KeyError("attribute is not a Length")
                v *= 2
                setattr(obj, a, v)
                return
        raise KeyError("no geometry attribute")
    elif m == "childedit":
        c = first_child_shape(obj)
        for a in ("x", "cx"):
            if hasattr(c, a):
                setattr(c, a, getattr(c, a) + 10)
                return
        raise KeyError("no child attribute")
    elif m == "childtredit":
        first_child_shape(obj).transform.post_translate(2, 2)
    elif m == "vbedit":
        if getattr(obj, "viewbox", None) is None:
            raise KeyError("no viewbox")
        obj.viewbox.width = 99.0
    elif m == "settext":
        obj.text = "changed"
    elif m == "seturl":
        obj.url = "changed.png"
    else:
        raise KeyError(m)


# ---------------------------------------------------------------- observation

def is_lib_obj(o):
    return type(o).__module__.startswith("svgelements")


def snapshot(o, depth=0, seen=None):
    """Deep structural value of an object: class names, public and private fields (caches excluded),
    list/dict contents; floats kept exactly.  Cycles (Subpath -> Path) are cut by identity."""
    if seen is None:
        seen = {}
    if o is None or isinstance(o, (bool, int, float, str, bytes)):
        return o
    if id(o) in seen:
        return ("<ref>", seen[id(o)])
    seen[id(o)] = len(seen)
    if isinstance(o, (list, tuple)):
        head = type(o).__name__
        items = tuple(snapshot(x, depth + 1, seen) for x in list.__iter__(o) if True) if isinstance(o, list) else tuple(snapshot(x, depth + 1, seen) for x in o)
        if is_lib_obj(o) and hasattr(o, "__dict__"):
            return (head, items, _fields(o, depth, seen))
        return (head, items)
    if isinstance(o, dict):
        return ("dict", tuple(sorted((str(k), repr(snapshot(v, depth + 1, seen))) for k, v in o.items())))
    if isinstance(o, (set, frozenset)):
        return ("set", tuple(sorted(repr(snapshot(v, depth + 1, seen)) for v in o)))
    if hasattr(o, "__dict__"):
        return (type(o).__name__, _fields(o, depth, seen))
    return repr(o)


def _fields(o, depth, seen):
    return tuple((k, snapshot(v, depth + 1, seen)) for k, v in sorted(o.__dict__.items()) if k not in CACHE_FIELDS)


def reach(o, path="", out=None):
    """id -> (object, access path) of every MUTABLE object reachable from o."""
    if out is None:
        out = {}
    if o is None or isinstance(o, (bool, int, float, str, bytes, frozenset)):
        return out
    if id(o) in out:
        return out
    if isinstance(o, tuple):
        for i, x in enumerate(o):
            reach(x, "%s[%d]" % (path, i), out)
        return out
    if not (isinstance(o, (list, dict, set, bytearray)) or (is_lib_obj(o) and hasattr(o, "__dict__"))):
        return out
    out[id(o)] = (o, path)
    if isinstance(o, list):
        for i, x in enumerate(list.__iter__(o)):
            reach(x, "%s[%d]" % (path, i), out)
    if isinstance(o, dict):
        for k, v in o.items():
            reach(v, "%s[%r]" % (path, k), out)
    if isinstance(o, set):
        for v in o:
            reach(v, path + "{}", out)
    if hasattr(o, "__dict__"):
        for k, v in o.__dict__.items():
            if k not in CACHE_FIELDS:
                reach(v, "%s.%s" % (path, k), out)
    return out


def witness(obj):
    """Mutate a shared object in place through its public interface; True if something was written."""
    if isinstance(obj, svg.Point):
        obj.x = (obj.x or 0) + 1234.5
        return True
    if isinstance(obj, svg.Matrix):
        obj.e += 1234.5
        return True
    if isinstance(obj, svg.Color):
        if obj.value is None:
            return False
        obj.blue = (obj.blue + 101) % 256
        return True
    if isinstance(obj, svg.Length):
        obj.amount += 1234.5
        return True
    if isinstance(obj, dict):
        obj["verif-witness"] = 1
        return True
    if isinstance(obj, svg.Group):
        list.append(obj, svg.Rect(0, 0, 1, 1))
        return True
    if isinstance(obj, list):
        obj.append(svg.Point(77, 77) if obj and isinstance(obj[0], svg.Point) else svg.Line(svg.Point(0, 0), svg.Point(77, 77)))
        return True
    if isinstance(obj, svg.PathSegment) and obj.end is not None:
        obj.end = svg.Point(obj.end.x + 1234.5, obj.end.y)
        return True
    if isinstance(obj, svg.Shape):
        obj.stroke_width = 1234.5
        return True
    if hasattr(obj, "__dict__"):
        for k, v in obj.__dict__.items():
            if isinstance(v, (int, float)) and not isinstance(v, bool):
                setattr(obj, k, v + 1234.5)
                return True
    return False


def shared_mutable(kind, op):
    """NoSharedMutable on the real heap, each sharing confirmed by a witness mutation via y."""
    dis = []
    x = make(kind)
    y = derive(kind, op, x)
    if y is x:
        return [{"clause": "SameObject", "detail": "%s of %s returned its operand" % (op, kind)}]
    rx, ry = reach(x, "x"), reach(y, "y")
    if kind == "Subpath" and op in ("copy", "mul"):
        pass
    for i in sorted(set(rx) & set(ry), key=lambda i: rx[i][1]):
        # fresh pair for each witness so that witnesses do not interfere
        x2 = make(kind)
        y2 = derive(kind, op, x2)
        r2x, r2y = reach(x2, "x"), reach(y2, "y")
        px, py = rx[i][1], ry[i][1]
        tgt = [o for o, p in r2y.values() if p == py]
        src = [o for o, p in r2x.values() if p == px]
        if not tgt or not src or tgt[0] is not src[0]:
            continue
        before = snapshot(x2)
        try:
            wrote = witness(tgt[0])
        except Exception:
            wrote = False
        if wrote and snapshot(x2) != before:
            dis.append({"clause": "SharedMutable", "shared_class": type(tgt[0]).__name__, "path_y": py, "path_x": px,
                        "detail": "%s(%s): %s reachable as %s from the source and as %s from the result; writing it through the result changes the source" % (
                            op, kind, type(tgt[0]).__name__, px, py)})
    return dis


def check_case(case):
    kind, op, hist = case["kind"], case["op"], case["hist"]
    dis = []
    trivial = False
    try:
        x = make(kind)
        sx0 = snapshot(x)
        y = derive(kind, op, x)
    except engine.CaseTimeout:
        raise
    except Exception as e:
        return {"dis": [{"clause": "DeriveRaises", "detail": "%s(%s) raised %s: %s" % (op, kind, type(e).__name__, str(e)[:80])}],
                "nontrivial": False, "class": "%s:%s" % (kind, op)}
    if snapshot(x) != sx0:
        dis.append({"clause": "DeriveModifiesOperand", "detail": "%s(%s) changed its operand" % (op, kind)})
    if op == "copy" and kind != "Subpath":
        if snapshot(y) != sx0:
            dis.append({"clause": "CopyDiffers", "detail": "copy(%s) is not structurally equal to its source" % kind})
    if op == "abs":
        # abs(x) denotes x with its transform realised: whatever part of the transform stays on the result, the stroke it is
        # drawn with (width x scale of the remaining transform) is that of x
        try:
            w0, w1 = x.implicit_stroke_width, y.implicit_stroke_width
            if w0 is not None and (w1 is None or abs(w1 - w0) > 1e-9 * max(1.0, abs(w0))):
                dis.append({"clause": "AbsDiffers", "detail": "abs(%s) is drawn with stroke width %r, its source with %r (stroke_width %r, transform %r)" % (
                    kind, w1, w0, y.stroke_width, y.transform)})
        except engine.CaseTimeout:
            raise
        except Exception as e:
            dis.append({"clause": "AbsDiffers", "detail": "abs(%s): implicit_stroke_width raised %s" % (kind, type(e).__name__)})
        try:
            if hasattr(type(x), "__eq__") and not (y == x):
                dis.append({"clause": "CopyNotEqual", "detail": "copy(%s) != source" % kind})
        except Exception:
            pass
    if not hist:
        dis += shared_mutable(kind, op)
    for step, (side, m) in enumerate(hist):
        tgt, other, oname = (x, y, "y") if side == "x" else (y, x, "x")
        before_o, before_t = snapshot(other), snapshot(tgt)
        try:
            mutate(tgt, m)
        except KeyError:
            trivial = True
            break
        except engine.CaseTimeout:
            raise
        except Exception as e:
            # a mutation that fails is outside this property (other properties own totality); stop the history
            trivial = True
            break
        if snapshot(tgt) == before_t:
            trivial = True   # the mutation had no effect on its own side: nothing to learn from this step
        if snapshot(other) != before_o:
            dis.append({"clause": "Aliased", "mutation": m, "side": side, "step": step,
                        "detail": "%s(%s): mutation %r of %s (step %d of %s) changed %s" % (op, kind, m, side, step + 1, hist, oname)})
            break
    for d in dis:
        d["kind"], d["op"] = kind, op
    return {"dis": dis, "nontrivial": bool(hist) and not trivial, "class": "%s:%s:%s" % (kind, op, hist),
            "checked": ["DeriveModifiesOperand", "Aliased"] + ([] if hist else ["SharedMutable"])}


def cases_from_dump(path):
    for st in engine.read_dump(path):
        yield {"kind": st["kind"], "op": st["op"], "hist": st["hist"]}


def run(tier, seed):
    run = engine.Run("C18", tier, seed)
    work = engine.workdir("C18")
    try:
        consts = {"MaxMut": 2 if tier == "quick" else 3}
        res = engine.run_tlc(work, "MC_C18", constants=consts, invariants=["Counts"], cfg_extra=["PROPERTY Independent"])
        run.add_tlc(res, "Alias: kinds x derivations x mutation histories, %s" % consts)
        n = 0
        for case, r in engine.replay("harness.c18", cases_from_dump(res["dump"]), chunk=300):
            run.record(case, r, key=r["class"])
            if n % 4000 == 3:
                run.sample(case)
            n += 1
        # beyond the exhaustive bound: histories of 6 mutations (all one-step extensions of each visited 5-history)
        sres, vals = engine.simulate_cases(work, "MC_C18", {"MaxMut": 6}, num=(4 if tier == "quick" else 150), depth=8, seed=seed + 1)
        run.add_tlc(sres, "Alias histories of 6 mutations by TLC -simulate (%d behaviours)" % sres["behaviours"])
        for case, r in engine.replay("harness.c18", [{"kind": v[1], "op": v[2], "hist": v[3]} for v in vals], chunk=100):
            run.record(case, r, key=r["class"])
        run.extra["simulated_histories_replayed"] = len(vals)
        if tier == "thorough":
            # unbounded argument on the specification (Apalache): Counts is inductive and the frame condition is an
            # action invariant from every state satisfying it; a negative control shows the tool can refute
            mod = os.path.join(engine.SPEC, "apalache", "APA_C18.tla")
            res_a = {"IndInv_inductive": engine.run_apalache(mod, "IndInit", "IndInv"),
                     "IndInv_initial": engine.run_apalache(mod, "Init", "IndInv", length=0),
                     "Independent_action_invariant": engine.run_apalache(mod, "IndInit", "Independent"),
                     "negative_control_refuted": engine.run_apalache(mod, "IndInit", "Control")}
            run.extra["apalache_unbounded"] = res_a
            if "error" in (res_a["IndInv_inductive"], res_a["IndInv_initial"], res_a["Independent_action_invariant"]) or res_a["negative_control_refuted"] == "ok":
                raise engine.MachineryError("Apalache disagrees with the Alias specification: %s" % res_a)
    finally:
        engine.cleanup(work)
    run.rule = ("cases = states of MC_C18: (kind, derivation, history of <= MaxMut public mutations on either side); non-trivial = every "
                "mutation of the history was applicable and changed its own side; the empty history additionally evaluates NoSharedMutable "
                "on the real heap with witness mutations")
    run.assumptions = ["observation = deep structural snapshot of __dict__/list/dict contents excluding the caches _length, _lengths, n",
                       "Image is a stub without pixel data (PIL absent)"]
    return run.finish()


def replay_case(case):
    worker_init()
    return check_case(case)
