"""C15 - lengths are true arc lengths, isometry-invariant, and drive point(t).

MC_C15 (ArcLen.tla): collinear Beziers = 1-D polynomials with rational total variation (every
control tuple over 0..V whose critical points are rational, along (1,0) and (3,4)); circular arcs
of k quarter turns (length r k pi/2); polyline paths with moves and Walk(t); query/edit histories.
The invariance laws (rotation, reflection, translation, reversal, uniform scaling, additivity) are
evaluated on every segment of MC_C02's table, including generic curves."""
import math
from fractions import Fraction
from . import engine, c02

svg = None
DIRS = [(3, 4, 5), (4, -3, 5), (-5, 12, 13), (0, 7, 7), (-6, 0, 6), (8, 15, 17), (-3, -4, 5)]
ERRS = (1e-4, 1e-6, 1e-9)


def worker_init():
    global svg
    svg = engine.import_lib()
    c02.svg = svg


def rat(q):
    return Fraction(q[0], q[1])


def check_bez(case):
    a, d = case["arg"]
    want = float(rat(case["exp"]))
    dx, dy = ((1, 0) if d == 1 else (3, 4))
    pts = [svg.Point(2 + dx * v, -1 + dy * v) for v in a]
    cls = svg.QuadraticBezier if len(a) == 3 else svg.CubicBezier
    dis = []
    turns_back = want > abs(a[-1] - a[0]) * math.hypot(dx, dy) + 1e-12      # the 1-D polynomial has an interior turning point (a cusp)
    mats = [("identity", svg.Matrix(), 1.0), ("rotate 90", svg.Matrix(0, 1, -1, 0, 0, 0), 1.0), ("reflect", svg.Matrix(-1, 0, 0, 1, 0, 0), 1.0),
            ("translate", svg.Matrix(1, 0, 0, 1, 1000, -333), 1.0), ("rotate atan(4/3)", svg.Matrix(0.6, 0.8, -0.8, 0.6, 0, 0), 1.0),
            ("scale 2", svg.Matrix(2, 0, 0, 2, 0, 0), 2.0), ("scale -1/2", svg.Matrix(-0.5, 0, 0, -0.5, 0, 0), 0.5), ("scale 1000", svg.Matrix.scale(1000), 1000.0)]
    for name, m, f in mats:
        for rev in (False, True):
            seg = cls(*[svg.Point(p) for p in (reversed(pts) if rev else pts)]) * m
            for e in ERRS:
                what = "%s%s %r.length(error=%g)" % (name, " reversed" if rev else "", seg, e)
                try:
                    L = seg.length(error=e)
                except engine.CaseTimeout:
                    raise
                except Exception as ex:
                    dis.append({"clause": "Raises", "detail": "%s raised %s: %s" % (what, type(ex).__name__, str(ex)[:50])})
                    continue
                w = want * f
                if abs(L - w) > e * f + 1e-9 * max(1.0, w):
                    dis.append({"clause": "Length", "detail": "%s = %r, true length %r" % (what, L, w), "seg": cls.__name__, "transform": name, "reversed": rev,
                                "turns_back": turns_back, "rel_err": abs(L - w) / max(w, 1e-300)})
                    break
    # inside a path: additivity, moves contribute nothing
    try:
        p = svg.Path(svg.Move(None, svg.Point(pts[0])), cls(*[svg.Point(q) for q in pts]), svg.Move(svg.Point(pts[-1]), svg.Point(50, 50)),
                     svg.Line(svg.Point(50, 50), svg.Point(53, 54)))
        L = p.length(error=1e-9)
        if abs(L - (want + 5.0)) > 2e-9 * max(1.0, want):
            dis.append({"clause": "PathLength", "detail": "Path(M, %s, M, 3-4-5 line).length() = %r, expected %r" % (cls.__name__, L, want + 5.0),
                        "seg": cls.__name__, "turns_back": turns_back, "rel_err": abs(L - want - 5.0) / max(want, 1e-300)})
    except engine.CaseTimeout:
        raise
    except Exception as ex:
        dis.append({"clause": "Raises", "detail": "path length raised %s" % type(ex).__name__})
    return dis


def check_shape_points(r, c):
    """point(t) of round SHAPES: the equivalent path of an ellipse is four quarter arcs of equal length, each walked by
    its own parameter, so point(t) is the point at parameter angle 2 pi t (SVG 2 start point and direction)"""
    dis = []
    for nm, sh, rx, ry in (("Ellipse", svg.Ellipse(c[0], c[1], 2 * r, r), 2 * r, r), ("Circle", svg.Circle(c[0], c[1], r), r, r),
                           ("Ellipse(tall)", svg.Ellipse(c[0], c[1], r, 3 * r), r, 3 * r)):
        for form, obj in ((nm + ".point", sh), ("Path(%s).point" % nm, svg.Path(sh))):
            for j in range(41):
                t = j / 40.0
                try:
                    q = obj.point(t, error=1e-7) if form.startswith("Path(") else obj.point(t)
                except engine.CaseTimeout:
                    raise
                except Exception as ex:
                    dis.append({"clause": "Raises", "detail": "%s(%s) raised %s" % (form, t, type(ex).__name__)})
                    break
                w = (c[0] + rx * math.cos(2 * math.pi * t), c[1] + ry * math.sin(2 * math.pi * t))
                if q is None or abs(q.x - w[0]) > 1e-6 * max(rx, ry) or abs(q.y - w[1]) > 1e-6 * max(rx, ry):
                    dis.append({"clause": "ShapeWalk", "detail": "%s(%s) = %r, expected %r (rx=%r, ry=%r)" % (form, t, q, w, rx, ry)})
                    break
    # perimeter of eccentric ellipse SHAPES against the defining integral (trapezoid rule on the periodic integrand: converges
    # geometrically); error 1e-9 x the smaller radius, with which the pinned tree is within 1e-8 relative
    for rx, ry in ((10 * r, r), (r, 50 * r), (3 * r, r)):
        n = 1 << 13
        ref = sum(math.hypot(rx * math.sin(2 * math.pi * i / n), ry * math.cos(2 * math.pi * i / n)) for i in range(n)) * 2 * math.pi / n
        for form, fn in (("Ellipse(%g x %g).length()" % (rx, ry), lambda: svg.Ellipse(c[0], c[1], rx, ry).length(error=1e-9 * min(rx, ry))),
                         ("Path(Ellipse(%g x %g)).length()" % (rx, ry), lambda: svg.Path(svg.Ellipse(c[0], c[1], rx, ry)).length(error=1e-9 * min(rx, ry)))):
            try:
                L = fn()
            except engine.CaseTimeout:
                raise
            except Exception as ex:
                dis.append({"clause": "Raises", "detail": "%s raised %s" % (form, type(ex).__name__)})
                continue
            if abs(L - ref) > 2e-7 * ref:
                dis.append({"clause": "EllipsePerimeter", "detail": "%s = %r, the perimeter integral is %r (relative error %.2g)" % (form, L, ref, abs(L - ref) / ref)})
    # eccentric arcs of many turns ("arcs of any extent"): k turns measure k perimeters (plus the rest); the chords a
    # subdivision starts from must not all land on the same point of the ellipse
    rx, ry = 2 * r, r
    n = 1 << 12
    per = sum(math.hypot(rx * math.sin(2 * math.pi * i / n), ry * math.cos(2 * math.pi * i / n)) for i in range(n)) * 2 * math.pi / n
    P = svg.Point
    for turns in (2.25, -5.5, 16.0, 32.0, -64.0, 100.25):
        sweep = turns * 2 * math.pi
        a = svg.Arc(P(c[0] + rx, c[1]), P(c[0] + rx * math.cos(sweep), c[1] + ry * math.sin(sweep)), P(*c), P(c[0] + rx, c[1]), P(c[0], c[1] + ry), sweep)
        want = abs(turns) * per                                # (the fractional parts used are quarter turns from an axis: each is per / 4)
        try:
            L = a.length(error=1e-6 * r)
        except engine.CaseTimeout:
            raise
        except Exception as ex:
            dis.append({"clause": "Raises", "detail": "length of an arc of %s turns raised %s" % (turns, type(ex).__name__)})
            continue
        if abs(L - want) > 1e-3 * want:
            dis.append({"clause": "ManyTurns", "detail": "Arc %g x %g over %s turns: length() = %r, %s perimeters measure %r" % (rx, ry, turns, L, abs(turns), want)})
    return dis


def check_circ(case):
    r, k, dirn, rot = case["arg"]
    r = float(rat(r))
    want = float(rat(case["exp"])) * math.pi
    c = (3.0, -2.0)
    a0 = rot * math.pi / 2
    signed = dirn * k * math.pi / 2
    P = svg.Point

    def pt(a):
        return P(c[0] + r * math.cos(a), c[1] + r * math.sin(a))
    dis = []
    if k == 4 and rot == 0 and dirn == 1:
        dis += check_shape_points(r, c)
    arcs = [("native", svg.Arc(pt(a0), pt(a0 + signed), P(*c), P(c[0] + r, c[1]), P(c[0], c[1] + r), signed)),
            # the extent given as an Angle object (an extent is not an angle modulo a turn: one whole turn is not nothing)
            ("native, sweep as Angle", svg.Arc(start=pt(a0), end=pt(a0 + signed), center=P(*c), prx=P(c[0] + r, c[1]), pry=P(c[0], c[1] + r),
                                               sweep=svg.Angle.radians(signed)))]
    if k < 4:
        arcs.append(("svg", svg.Arc(pt(a0), r, r, 0, k > 2, dirn > 0, pt(a0 + signed))))
    for name, arc in arcs:
        for m, f in ((svg.Matrix(), 1.0), (svg.Matrix(0.6, 0.8, -0.8, 0.6, 5, 5), 1.0), (svg.Matrix(-1, 0, 0, 1, 0, 0), 1.0), (svg.Matrix.scale(3), 3.0)):
            for e in ERRS:
                try:
                    L = (arc * m).length(error=e)
                except engine.CaseTimeout:
                    raise
                except Exception as ex:
                    dis.append({"clause": "Raises", "detail": "circular arc length raised %s" % type(ex).__name__})
                    continue
                if abs(L - want * f) > e * f + 1e-9 * max(1.0, want * f):
                    dis.append({"clause": "CircleLength", "detail": "%s circular arc r=%g, %d quarter turns, dir %d, x%s: length(error=%g) = %r, expected %r" % (name, r, k, dirn, f, e, L, want * f)})
                    break
    return dis


def path_of_word(ds):
    parts = ["M2,1"]
    for d in ds:
        if d == 0:
            parts.append("m10,-20")
        else:
            parts.append("l%d,%d" % DIRS[d - 1][:2])
    return " ".join(parts)


def check_points(p, exp, what):
    dis = []
    for j, cands in enumerate(exp):
        t = j / 8.0
        try:
            q = p.point(t)
        except engine.CaseTimeout:
            raise
        except Exception as ex:
            return [{"clause": "Raises", "detail": "%s point(%s) raised %s" % (what, t, type(ex).__name__)}]
        cands = [[float(rat(c[0])), float(rat(c[1]))] for c in cands]
        if j == 0:       # "point(0) is the first point": the path's first point, drawn or not
            f0 = p.first_point if hasattr(p, "first_point") else None
            if f0 is not None:
                cands.append([f0.x, f0.y])
        ok = any(abs(q.x - c[0]) <= 1e-9 * max(1, abs(q.x)) and abs(q.y - c[1]) <= 1e-9 * max(1, abs(q.y)) for c in cands) if q is not None else False
        if not ok:
            dis.append({"clause": "Walk", "detail": "%s: point(%s) = %r, expected %s" % (what, t, q, cands)})
            break
    return dis


def check_walk(case):
    ds = case["arg"]
    d = path_of_word(ds)
    p = svg.Path(d)
    dis = check_points(p, case["exp"], "Path(%r)" % d)
    tot = sum(DIRS[x - 1][2] for x in ds if x)
    # all t in [0,1]: just inside the ends the point is within (distance walked) of the end point - the cumulative fractions
    # are floating-point sums and need not add up to exactly 1
    try:
        first, last = p.point(0.0), p.point(1.0)
        for t in (1.0 - 2.0 ** -53, 1.0 - 1e-15, 1.0 - 1e-12, 5e-324, 1e-15):
            q = p.point(t)
            # (moves have no length: just after 0 the walk is at the start of the first drawn segment - one of the model's
            # candidates for t = 0 - while point(0) itself is the path's first point, drawn or not)
            refs = [last] if t > 0.5 else [first] + [svg.Point(float(rat(c[0])), float(rat(c[1]))) for c in case["exp"][0]]
            ref = refs[0]
            walked = (1.0 - t if t > 0.5 else t) * tot
            if q is None or all(abs(q - r) > walked + 1e-9 * max(1.0, tot) for r in refs):
                dis.append({"clause": "Walk", "detail": "Path(%r): point(%r) = %r, but point(%s) = %r and the whole path measures %r" % (d, t, q, "1" if t > 0.5 else "0", ref, tot)})
                break
    except engine.CaseTimeout:
        raise
    except Exception as ex:
        dis.append({"clause": "Raises", "detail": "Path(%r) point near an end raised %s" % (d, type(ex).__name__)})
    try:
        L = p.length()
        if abs(L - tot) > 1e-9 * tot:
            dis.append({"clause": "PathLength", "detail": "Path(%r).length() = %r, expected %r" % (d, L, tot)})
    except Exception as ex:
        dis.append({"clause": "Raises", "detail": "length raised %s" % type(ex).__name__})
    # the same geometry as a Polyline shape when there are no moves
    if 0 not in ds:
        pts = [(2, 1)]
        for x in ds:
            pts.append((pts[-1][0] + DIRS[x - 1][0], pts[-1][1] + DIRS[x - 1][1]))
        dis += check_points(svg.Polyline(*pts), case["exp"], "Polyline%r" % (pts,))
    return dis


def check_hist(case):
    hist = case["hist"]
    p = svg.Path(path_of_word([1]))
    dis = []
    K = 1
    try:
        for name, w in hist:
            if name == "reverse":
                p.reverse()
                continue
            if name == "subreverse":         # the same reversal through the view of the (only) sub-path
                p.subpath(0).reverse()
                continue
            if name == "scale2":
                p *= svg.Matrix.scale(2)
                p.reify()
                K *= 2
                continue
            if name == "subscale2":          # the same map through the view of the (only) sub-path: it rewrites the path's segments
                sp = p.subpath(0)
                sp *= svg.Matrix.scale(2)
                K *= 2
                continue
            if name == "coarse":
                p.length(error=1e-2, min_depth=0)
                continue
            if name == "query":
                p.point(0.5)
            elif name == "length":
                p.length()
            elif name == "append":
                cur = p.current_point
                d = DIRS[w[-1] - 1]
                p.append(svg.Line(None, svg.Point(cur.x + K * d[0], cur.y + K * d[1])))
            elif name == "extend_str":
                d = DIRS[w[-1] - 1]
                p += "l%d,%d" % (K * d[0], K * d[1])
            elif name == "delete_last":
                del p[len(p) - 1]
            elif name == "replace_last":
                last = p[len(p) - 1]
                d = DIRS[w[-1] - 1]
                p[len(p) - 1] = svg.Line(svg.Point(last.start), svg.Point(last.start.x + K * d[0], last.start.y + K * d[1]))
    except engine.CaseTimeout:
        raise
    except Exception as ex:
        return [{"clause": "Raises", "detail": "history %s raised %s: %s" % ([h[0] for h in hist], type(ex).__name__, str(ex)[:60])}]
    dis += check_points(p, case["exp"], "path after %s" % [h[0] for h in hist])
    # the length after the history is the length of the CURRENT segments
    try:
        tot = K * sum(DIRS[x - 1][2] for x in case["arg"] if x)
        L = p.length()
        if abs(L - tot) > 1e-9 * max(1.0, tot):
            dis.append({"clause": "PathLength", "detail": "after %s: length() = %r, the current segments measure %r" % ([h[0] for h in hist], L, tot)})
    except engine.CaseTimeout:
        raise
    except Exception as ex:
        dis.append({"clause": "Raises", "detail": "length after %s raised %s" % ([h[0] for h in hist], type(ex).__name__)})
    return dis


_GLX = [0.0, 0.5384693101056831, -0.5384693101056831, 0.906179845938664, -0.906179845938664]
_GLW = [0.5688888888888889, 0.47862867049936647, 0.47862867049936647, 0.23692688505618908, 0.23692688505618908]


def _quad(f, a, b, n):
    h = (b - a) / n
    s = 0.0
    for i in range(n):
        m = a + (i + 0.5) * h
        for x, w in zip(_GLX, _GLW):
            s += w * f(m + x * h / 2.0)
    return s * h / 2.0


def reference_length(obj):
    """The definition  length = integral of |P'(t)| dt  evaluated from the specification's exact data by composite
    5-point Gauss-Legendre quadrature at two resolutions (tagged comparator, like on_param).  Returns (value, own
    error estimate) or None where the speed vanishes inside the curve (cusps: the collinear family decides those)."""
    if obj[0] == "A":
        u, v = c02.fpt(obj[2]), c02.fpt(obj[3])
        f, signed = c02.arc_fn(obj)
        th0 = c02.ang(obj[4])

        def speed(th):
            return math.hypot(-u[0] * math.sin(th) + v[0] * math.cos(th), -u[1] * math.sin(th) + v[1] * math.cos(th))
        lo, hi = th0, th0 + signed
    else:
        P = [c02.fpt(p) for p in obj[1:]]
        n = len(P) - 1
        D = [(n * (P[i + 1][0] - P[i][0]), n * (P[i + 1][1] - P[i][1])) for i in range(n)]

        def speed(t):
            q = D
            while len(q) > 1:
                q = [((1 - t) * a[0] + t * b[0], (1 - t) * a[1] + t * b[1]) for a, b in zip(q, q[1:])]
            return math.hypot(*q[0])
        lo, hi = 0.0, 1.0
    samples = [speed(lo + (hi - lo) * i / 64.0) for i in range(65)]
    if max(samples) == 0 or min(samples) < 1e-3 * max(samples):
        return None
    a, b = abs(_quad(speed, lo, hi, 256)), abs(_quad(speed, lo, hi, 512))
    return b, abs(a - b)


def check_law(case):
    """invariance laws on an arbitrary segment of MC_C02's table, and accuracy against the defining integral"""
    obj = case["obj"]
    x = c02.build(obj)
    dis = []
    ref = reference_length(obj)
    big = "unit" in case and not case["unit"].startswith("1/")
    if ref is not None and ref[1] <= 1e-11 * max(1.0, ref[0]):
        # (at coordinates of 1e4..1e5 the 1e-9 setting is below what the chord sums can resolve in reasonable time)
        for e in ((1e-4, 1e-6) if big else (1e-4, 1e-6, 1e-9)):
            try:
                Le = x.length(error=e)
            except engine.CaseTimeout:
                raise
            except Exception as ex:
                dis.append({"clause": "Raises", "detail": "length(error=%g) of %s raised %s" % (e, obj, type(ex).__name__)})
                continue
            err = abs(Le - ref[0])
            if err > e + 1e-11 * max(1.0, ref[0]):
                circular = obj[0] == "A" and abs(math.hypot(*c02.fpt(obj[2])) - math.hypot(*c02.fpt(obj[3]))) < 1e-12
                dis.append({"clause": "Accuracy", "kind": obj[0], "circular_arc": circular, "requested_error": e, "error": err,
                            # the error of a chord-sum that stops refining each piece at `e` grows like L (e/L)^(2/3)
                            "error_over_L_e23": (err / ref[0]) / ((e / ref[0]) ** (2.0 / 3.0)),
                            "detail": "length(error=%g) of %s = %r, the integral of the speed is %r (off by %.3g)" % (e, obj, Le, ref[0], err)})
    e = 1e-4 if big else 1e-7
    try:
        L = x.length(error=e)
    except engine.CaseTimeout:
        raise
    except Exception as ex:
        return [{"clause": "Raises", "detail": "length of %s raised %s" % (obj, type(ex).__name__)}]
    tol = (4e-6 if not big else 4e-7) * max(1.0, L)
    for name, m, f in (("rotate 90", svg.Matrix(0, 1, -1, 0, 0, 0), 1.0), ("reflect x", svg.Matrix(-1, 0, 0, 1, 0, 0), 1.0), ("reflect diag", svg.Matrix(0, 1, 1, 0, 0, 0), 1.0),
                       ("translate", svg.Matrix(1, 0, 0, 1, -77, 31), 1.0), ("rotate atan(4/3)", svg.Matrix(0.6, 0.8, -0.8, 0.6, 0, 0), 1.0),
                       ("rotate+translate", svg.Matrix(-0.8, 0.6, -0.6, -0.8, 12, 9), 1.0), ("scale 3", svg.Matrix.scale(3), 3.0), ("scale -1/4", svg.Matrix.scale(-0.25), 0.25)):
        try:
            L2 = (x * m).length(error=e * f)
        except engine.CaseTimeout:
            raise
        except Exception as ex:
            dis.append({"clause": "Raises", "detail": "length of %s x %s raised %s" % (obj, name, type(ex).__name__)})
            continue
        if abs(L2 - f * L) > tol * f:
            dis.append({"clause": "Invariance", "transform": name, "kind": obj[0], "detail": "length %r of %s becomes %r under %s (expected %r)" % (L, obj, L2, name, f * L)})
    try:
        from copy import copy
        # the same OBJECT measured, mapped in place, measured again (a length belongs to the geometry the object has now)
        z = copy(x)
        z.length(error=e)
        z *= svg.Matrix.scale(3)
        L4 = z.length(error=e)
        if abs(L4 - 3 * L) > 3 * tol:
            dis.append({"clause": "Invariance", "transform": "scale 3 in place after a first measurement", "kind": obj[0],
                        "detail": "length %r of %s, measured again after seg *= scale(3): %r (expected %r)" % (L, obj, L4, 3 * L)})
        z *= svg.Matrix(0.6, 0.8, -0.8, 0.6, 7, -3)
        L5 = z.length(error=e)
        if abs(L5 - 3 * L) > 3 * tol:
            dis.append({"clause": "Invariance", "transform": "rotation in place after two measurements", "kind": obj[0],
                        "detail": "length %r of %s x 3, measured again after an in-place rotation: %r" % (L, obj, L5)})
        y = copy(x)
        y.reverse()
        L3 = y.length(error=e)
        if abs(L3 - L) > tol:
            dis.append({"clause": "Invariance", "transform": "reverse", "kind": obj[0], "detail": "length %r of %s becomes %r when reversed" % (L, obj, L3)})
        # chord <= length, and length <= control polygon for Beziers
        chord = abs(x.end - x.start)
        if L < chord - tol:
            dis.append({"clause": "ShorterThanChord", "kind": obj[0], "detail": "length %r of %s is shorter than its chord %r" % (L, obj, chord)})
        if obj[0] in ("Q", "C"):
            pts = [c02.fpt(p) for p in obj[1:]]
            poly = sum(math.hypot(b[0] - a[0], b[1] - a[1]) for a, b in zip(pts, pts[1:]))
            if L > poly + tol:
                dis.append({"clause": "LongerThanPolygon", "kind": obj[0], "detail": "length %r of %s exceeds its control polygon %r" % (L, obj, poly)})
        # additivity: a path of the segment twice (second copy translated to connect) has twice the length
        p = svg.Path(svg.Move(None, svg.Point(x.start)), copy(x))
        if abs(p.length(error=e) - L) > tol:
            dis.append({"clause": "PathLength", "detail": "Path(M, seg).length() = %r, seg.length() = %r" % (p.length(error=e), L)})
        # "to within the requested error" is about the call, not about the object's past: a path measured coarsely first
        # answers a finer request like a path that was never measured
        if not big and obj[0] != "L":
            p1 = svg.Path(svg.Move(None, svg.Point(x.start)), copy(x))
            p2 = svg.Path(svg.Move(None, svg.Point(x.start)), copy(x))
            coarse = p1.length(error=1e-2, min_depth=0)
            fine_after, fine_fresh = p1.length(error=1e-7), p2.length(error=1e-7)
            if abs(fine_after - fine_fresh) > 1e-7:
                dis.append({"clause": "RequestedError", "kind": obj[0], "detail": "Path(M, %s): length(error=1e-7) = %r after length(error=1e-2, min_depth=0) = %r on the same path; a fresh path gives %r" % (
                    obj, fine_after, coarse, fine_fresh)})
            # ... and with the coarse error alone (same default depth): the cached answer is reused only when it is at least as fine
            p3 = svg.Path(svg.Move(None, svg.Point(x.start)), copy(x))
            coarse3 = p3.length(error=1.0)
            fine3 = p3.length(error=1e-9)
            fresh3 = svg.Path(svg.Move(None, svg.Point(x.start)), copy(x)).length(error=1e-9)
            if abs(fine3 - fresh3) > 1e-9 * max(1.0, fresh3):
                dis.append({"clause": "RequestedError", "kind": obj[0], "detail": "Path(M, %s): length(error=1e-9) = %r after length(error=1.0) = %r on the same path; a fresh path gives %r" % (
                    obj, fine3, coarse3, fresh3)})
            # the map given as text
            Ls = (copy(x) * "scale(3)").length(error=3 * e)
            if abs(Ls - 3 * L) > 3 * tol:
                dis.append({"clause": "Invariance", "transform": "'scale(3)' as text", "kind": obj[0], "detail": "length %r of %s becomes %r under the string 'scale(3)' (expected %r)" % (L, obj, Ls, 3 * L)})
    except engine.CaseTimeout:
        raise
    except Exception as ex:
        dis.append({"clause": "Raises", "detail": "laws on %s raised %s: %s" % (obj, type(ex).__name__, str(ex)[:60])})
    return dis


def check_ends(case):
    """Polylines with irrational segment lengths: the cumulative fractions are rounded sums, yet every t in [0,1] has its point -
    within (distance walked from the end) of the end point for t just inside 0 and 1, and on the right segment in between."""
    pts = case["pts"]
    d = "M%d,%d " % tuple(pts[0]) + " ".join("L%d,%d" % tuple(q) for q in pts[1:])
    lens = [math.hypot(b[0] - a[0], b[1] - a[1]) for a, b in zip(pts, pts[1:])]
    tot = sum(lens)
    dis = []
    for form, p in (("Path(%r)" % d, svg.Path(d)), ("Polyline%r" % (pts,), svg.Polyline(*[tuple(q) for q in pts]))):
        try:
            for t in (1.0 - 2.0 ** -53, 1.0 - 2.0 ** -52, 1.0 - 1e-15, 1.0 - 1e-13, 5e-324, 1e-16):
                q = p.point(t)
                ref = pts[-1] if t > 0.5 else pts[0]
                walked = (1.0 - t if t > 0.5 else t) * tot
                if q is None or math.hypot(q.x - ref[0], q.y - ref[1]) > walked + 1e-9 * max(1.0, tot):
                    dis.append({"clause": "Walk", "detail": "%s: point(%r) = %r; the end point is %r and the whole path measures %r" % (form, t, q, ref, tot)})
                    break
            # the cumulative end of each segment, approached from both sides
            acc = 0.0
            for i, L in enumerate(lens[:-1]):
                acc += L
                for t in (acc / tot * (1 - 1e-12), acc / tot * (1 + 1e-12)):
                    q = p.point(t)
                    if q is None or math.hypot(q.x - pts[i + 1][0], q.y - pts[i + 1][1]) > 1e-9 * max(1.0, tot):
                        dis.append({"clause": "Walk", "detail": "%s: point(%r) = %r; the corner at that fraction is %r" % (form, t, q, pts[i + 1])})
                        break
        except engine.CaseTimeout:
            raise
        except Exception as ex:
            dis.append({"clause": "Raises", "detail": "%s point near an end raised %s" % (form, type(ex).__name__)})
    return dis


def check_case(case):
    k = case["kind"]
    dis = {"bez": check_bez, "circ": check_circ, "walk": check_walk, "hist": check_hist, "law": check_law, "ends": check_ends}[k](case)
    for d in dis:
        d["case_kind"] = k
    return {"dis": dis, "nontrivial": True, "class": k, "checked": ["Length", "Walk", "Invariance", "PathLength"]}


def cases_from_dump(path):
    for st in engine.read_dump(path):
        if st["kind"] == "hist" and not st["hist"]:
            continue
        yield {"kind": st["kind"], "arg": st["arg"], "exp": st["exp"], "hist": st["hist"]}


ID6 = [[1, 1], [0, 1], [0, 1], [1, 1], [0, 1], [0, 1]]


def law_cases(path, seed=0):
    n = 0
    for st in engine.read_dump(path):
        n += 1
        yield {"kind": "law", "obj": st["obj"]}
        # the same segment at another coordinate magnitude (the property quantifies over 1e-3 .. 1e5)
        u = [(100000, 1), (12345, 1), (1, 1000)][(n + seed) % 3]
        # (the property's range ends at 1e5: a segment that is already large is scaled only up to that magnitude)
        big = max([abs(float(rat(v))) for q in st["obj"][1:4] if isinstance(q, list) and len(q) == 2 and isinstance(q[0], list) for v in q] + [1.0])
        if u[1] == 1 and big * u[0] > 1e5:
            u = (max(1, int(1e5 // big)), 1)
            if u[0] == 1:
                continue
        sc = c02.scaled({"obj": st["obj"], "img": st["obj"], "hist": [], "acc": ID6}, u)
        yield {"kind": "law", "obj": sc["obj"], "unit": sc["unit"]}


def run(tier, seed):
    run = engine.Run("C15", tier, seed)
    work = engine.workdir("C15")
    try:
        consts = {"V": 4, "MaxOps": 3} if tier == "quick" else {"V": 6, "MaxOps": 4}
        res = engine.run_tlc(work, "MC_C15", constants=consts, invariants=["TVAtLeastChord", "WalkEnds", "WalkMonotone"], timeout=3000)
        run.add_tlc(res, "ArcLen: collinear Beziers, circles, walks, histories, %s" % consts)
        res2 = engine.run_tlc(work, "MC_C02", constants={"Full": "FALSE" if tier == "quick" else "TRUE", "MaxMul": 0}, invariants=["Compose"])
        run.add_tlc(res2, "segment table for the invariance laws")
        n = 0
        cases = list(cases_from_dump(res["dump"])) + list(law_cases(res2["dump"], seed))
        # beyond the exhaustive bound: query/edit histories of 5..9 operations
        sres, vals = engine.simulate_cases(work, "MC_C15", {"V": 4, "MaxOps": 9}, num=(3 if tier == "quick" else 100), depth=11,
                                           seed=seed + 1, init="InitHist")
        run.add_tlc(sres, "query/edit histories of 5-9 operations by TLC -simulate (%d behaviours)" % sres["behaviours"])
        cases += [{"kind": "hist", "arg": v[1], "exp": v[2], "hist": v[3]} for v in vals]
        run.extra["simulated_histories_replayed"] = len(vals)
        import random
        rng = random.Random(seed * 1501 + 15)
        cases.append({"kind": "ends", "pts": [[8, 3], [5, 3], [6, 12], [4, 4]]})
        for _ in range(400 if tier == "quick" else 20000):
            cases.append({"kind": "ends", "pts": [[rng.randint(-20, 20), rng.randint(-20, 20)] for _ in range(rng.randint(3, 8))]})
        for case, r in engine.replay("harness.c15", cases, chunk=40):
            run.record(case, r, key=str((case["kind"], case.get("arg"), case.get("hist"), case.get("obj"), case.get("pts"))))
            if n % 500 == 5:
                run.sample({k: v for k, v in case.items()})
            n += 1
    finally:
        engine.cleanup(work)
    run.rule = ("cases = initial states of MC_C15 (collinear quadratic/cubic control tuples over 0..V with rational critical points x 2 directions, x 8 maps x "
                "reversal x 3 error settings; circular arcs of 1..4 quarter turns; polyline words with moves at t = j/8; all query/edit histories of <= MaxOps) "
                "+ the invariance laws on every segment of MC_C02's table")
    run.assumptions = ["accuracy to the requested error is decided only on the exactly decidable family; for generic curves only the laws "
                       "(isometry/scaling/reversal invariance, chord <= length <= control polygon, additivity) are checked",
                       "tolerance = requested error + 1e-9 relative"]
    return run.finish()


def replay_case(case):
    worker_init()
    return check_case(case)
