"""C02, shapes and whole paths: the decomposition of (shape * M) equals M applied to the shape's own
untransformed decomposition (which is C06's business), for every shape of MC_C06 x matrix."""
from fractions import Fraction
from . import engine, c06, c16

svg = None


def worker_init():
    global svg
    svg = engine.import_lib()
    c06.svg = svg
    c16.svg = svg


def check_case(case):
    shape, tf = case["shape"], case["tf"]
    M = tuple(float(Fraction(v[0], v[1])) for v in tf)
    dis = []
    try:
        base = c06.build(shape, "kwargs", (1.0, 0.0, 0.0, 1.0, 0.0, 0.0))
        ref = list(svg.Path(base))          # untransformed decomposition (segments are fresh objects)
    except Exception as e:
        return {"dis": [], "nontrivial": False, "class": "shape"}
    m = svg.Matrix(*M)
    forms = [("(shape * M).segments()", lambda: list((base * m).segments())),
             ("abs(Path(shape) * M)", lambda: list(abs(svg.Path(base) * m))),
             ("Path(shape * M).reify()", lambda: list(svg.Path(base * m).reify())),
             ("Path(shape)*M then reify()", lambda: list((svg.Path(base) * m).reify())),
             ("abs(shape * M) as Path", lambda: list(abs(svg.Path(abs(base * m))))),
             ("Path(shape @ M)", lambda: list(abs(svg.Path(base @ m)))),
             ("Path(shape) @ M", lambda: list(svg.Path(base) @ m))]
    for name, fn in forms:
        try:
            got = fn()
        except engine.CaseTimeout:
            raise
        except Exception as e:
            dis.append({"clause": "Raises", "form": name, "detail": "%s of %s raised %s: %s" % (name, shape, type(e).__name__, str(e)[:60])})
            continue
        if len(got) != len(ref):
            dis.append({"clause": "SegmentCount", "form": name, "detail": "%s of %s: %d segments, untransformed shape has %d" % (name, shape, len(got), len(ref))})
            continue
        for i, (g, r) in enumerate(zip(got, ref)):
            if type(g) is not type(r):
                dis.append({"clause": "Kind", "form": name, "detail": "%s of %s: segment %d is %s, untransformed %s" % (name, shape, i, type(g).__name__, type(r).__name__)})
                break
            bad = None
            for t in (0.0, 0.25, 0.5, 0.75, 1.0):
                if isinstance(r, svg.Move):
                    p, q = g.end, r.end
                else:
                    p, q = g.point(t), r.point(t)
                w = c06.mapped(M, (q.x, q.y))
                tol = 1e-9 * max(1.0, abs(w[0]), abs(w[1]))
                if p is None or abs(p.x - w[0]) > tol or abs(p.y - w[1]) > tol:
                    bad = (t, p, w)
                    break
            if bad:
                dis.append({"clause": "PointImage", "form": name, "seg": type(r).__name__,
                            "detail": "%s of %s x %s: segment %d (%s) point(%s) = %r, M(original point) = %r" % (name, shape, M, i, type(r).__name__, bad[0], bad[1], bad[2])})
                break
    # (X * M).point(t) on the shape object itself (the transform is held lazily)
    if M != (1.0, 0.0, 0.0, 1.0, 0.0, 0.0):
        try:
            lazy = base * m
            for t in (0.0, 0.3, 0.5, 1.0):
                q0 = base.point(t)
                if q0 is None:
                    break
                p = lazy.point(t)
                w = c06.mapped(M, (q0.x, q0.y))
                tol = 1e-9 * max(1.0, abs(w[0]), abs(w[1]))
                if p is None or abs(p.x - w[0]) > tol or abs(p.y - w[1]) > tol:
                    dis.append({"clause": "LazyPoint", "form": "(shape * M).point(t)",
                                "ignores_transform": p is not None and abs(p.x - q0.x) <= tol and abs(p.y - q0.y) <= tol,
                                "detail": "(%s x %s).point(%s) = %r, M(shape.point(%s)) = %r" % (shape, M, t, p, t, w)})
                    break
        except engine.CaseTimeout:
            raise
        except Exception as e:
            dis.append({"clause": "Raises", "form": "(shape * M).point(t)", "detail": "%s: %s" % (type(e).__name__, str(e)[:60])})
    tc = c06.transform_class(M)
    for x in dis:
        x["kind"] = shape[0]
        x["transform_class"] = "non_conformal" if tc in ("non_conformal",) else ("axis_scale" if tc == "axis_scale" else "conformal")
        x["reflection"] = M[0] * M[3] - M[1] * M[2] < 0
        x["antidiagonal_reflection"] = M[0] == 0 and M[3] == 0 and M[0] * M[3] - M[1] * M[2] < 0
        x["round"] = shape[0] in ("circle", "ellipse") or (shape[0] == "rect" and any(type(r).__name__ == "Arc" for r in ref))
    return {"dis": dis, "nontrivial": bool(ref), "class": "shape:%s:%s" % (shape[0], tc), "checked": ["PointImage"]}


def cases(path):
    for st in engine.read_dump(path):
        yield {"shape": st["shape"], "tf": st["tf"]}


def run_into(run, work, tier, seed):
    res = engine.run_tlc(work, "MC_C06", constants={"Full": "FALSE" if tier == "quick" else "TRUE"}, invariants=["Connected"])
    run.add_tlc(res, "shape table x transforms (shared with C06)")
    n = 0
    for case, r in engine.replay("harness.c02_shapes", cases(res["dump"]), chunk=60):
        run.record(case, r, key="shape%s%s" % (case["shape"], case["tf"]))
        if n % 300 == 7:
            run.sample(case)
        n += 1
