"""Shared helpers: hist -> path-data string, projection of real Path objects onto spec segments."""
import random

KIND = {"Move": "M", "Line": "L", "Close": "Z", "QuadraticBezier": "Q", "CubicBezier": "C", "Arc": "A"}


def num_spellings(n):
    """Alternative spellings of the integer n allowed by the SVG number grammar."""
    s = [str(n), "%d.0" % n, "%de0" % n, "%d.00e+0" % n, "%d0e-1" % n, "%dE0" % n]
    if n >= 0:
        s += ["+%d" % n, "+%d.0" % n]
    if n == 0:
        s += [".0", "-0", "0.0"]
    else:
        # n = m * 10^k spellings with a leading dot:  3 -> .3e1, -2 -> -.2e1
        sign = "-" if n < 0 else ""
        s += ["%s.%de%d" % (sign, abs(n), len(str(abs(n))))]
    return s


def spell_number(n, rng):
    if rng is None:
        return str(n)
    if rng.random() < 0.5:
        return str(n)
    return rng.choice(num_spellings(n))


def join_tokens(tokens, rng):
    """tokens: list of ('L', letter) / ('N', text) / ('F', '0'|'1').  Separators are chosen among
    the forms the grammar allows; omitted only where the next token cannot merge with the previous."""
    out = []
    prev = None
    for kind, text in tokens:
        sep = " "
        if rng is not None:
            r = rng.random()
            if prev is None:
                sep = rng.choice(["", "", " ", "\n ", "\r\n", "\f"])
            elif kind == "L" or prev[0] == "L":
                sep = rng.choice(["", "", " ", "\t", "\n", "\r", "\r\n", "\f"])
            elif prev[0] == "F":
                # after a flag anything may follow directly
                sep = rng.choice(["", " ", ",", " , ", "\r", "\t,\f"])
            else:
                # number followed by number/flag
                opts = [" ", ",", " , ", ", ", "\n", "\r", "\r\n", "\f", "\t", "\r,\n"]
                if kind == "N":
                    if text[0] in "+-":
                        opts += ["", ""]
                    elif text[0] == "." and ("." in prev[1] or "e" in prev[1].lower()):
                        opts += ["", ""]
                sep = rng.choice(opts)
        elif prev is None:
            sep = ""
        out.append(sep)
        out.append(text)
        prev = (kind, text)
    return "".join(out)


ARITY = {"M": 2, "L": 2, "T": 2, "H": 1, "V": 1, "C": 6, "S": 4, "Q": 4, "A": 7, "Z": 0}


def hist_tokens(hist, rng=None):
    toks = []
    for letter, args, impl, cz in hist:
        if not impl:
            toks.append(("L", letter))
        if letter.upper() == "A":
            for i, a in enumerate(args):
                if i in (3, 4):
                    toks.append(("F", str(a)))
                else:
                    toks.append(("N", spell_number(a, rng)))
        else:
            for a in args:
                toks.append(("N", spell_number(a, rng)))
        if cz:
            toks.append(("L", rng.choice(["z", "Z"]) if rng is not None else "z"))
    return toks


def hist_to_d(hist, rng=None):
    return join_tokens(hist_tokens(hist, rng), rng)


def pt(p):
    if p is None:
        return None
    return [p.x, p.y]


def project(path):
    """Real Path -> list of [kind, start, c1, c2, end] in the spec's vocabulary (public fields only)."""
    res = []
    for seg in path:
        k = KIND.get(type(seg).__name__, type(seg).__name__)
        if k == "M":
            res.append(["M", None, None, None, pt(seg.end)])
        elif k in ("L", "Z"):
            res.append([k, pt(seg.start), None, None, pt(seg.end)])
        elif k == "Q":
            res.append(["Q", pt(seg.start), pt(seg.control), None, pt(seg.end)])
        elif k == "C":
            res.append(["C", pt(seg.start), pt(seg.control1), pt(seg.control2), pt(seg.end)])
        elif k == "A":
            res.append(["A", pt(seg.start), None, None, pt(seg.end)])
        else:
            res.append([k, None, None, None, None])
    return res


def close(a, b, tol=1e-9):
    return abs(a - b) <= tol * max(1.0, abs(a), abs(b))


def arc_point(x1, y1, rx, ry, rot_deg, large, sweep, x2, y2, t):
    """Point at parameter t of the arc given in SVG end-point form, by the conversion of the SVG 1.1 implementation notes
    (F.6.5/F.6.6: radii made positive and scaled up when too small); written out here so that the comparison does not go
    through the library's own Arc."""
    import math
    rx, ry = abs(float(rx)), abs(float(ry))
    if (x1, y1) == (x2, y2):
        return (float(x1), float(y1))
    if rx == 0 or ry == 0:
        return (x1 + (x2 - x1) * t, y1 + (y2 - y1) * t)
    phi = math.radians(rot_deg)
    c, s = math.cos(phi), math.sin(phi)
    dx, dy = (x1 - x2) / 2.0, (y1 - y2) / 2.0
    xp, yp = c * dx + s * dy, -s * dx + c * dy
    lam = xp * xp / (rx * rx) + yp * yp / (ry * ry)
    if lam > 1:
        rx, ry = rx * math.sqrt(lam), ry * math.sqrt(lam)
    num = rx * rx * ry * ry - rx * rx * yp * yp - ry * ry * xp * xp
    den = rx * rx * yp * yp + ry * ry * xp * xp
    k = math.sqrt(max(0.0, num / den))
    if bool(large) == bool(sweep):
        k = -k
    cxp, cyp = k * rx * yp / ry, -k * ry * xp / rx
    cx, cy = c * cxp - s * cyp + (x1 + x2) / 2.0, s * cxp + c * cyp + (y1 + y2) / 2.0
    th1 = math.atan2((yp - cyp) / ry, (xp - cxp) / rx)
    th2 = math.atan2((-yp - cyp) / ry, (-xp - cxp) / rx)
    d = th2 - th1
    if sweep and d < 0:
        d += 2 * math.pi
    elif not sweep and d > 0:
        d -= 2 * math.pi
    th = th1 + d * t
    ex, ey = rx * math.cos(th), ry * math.sin(th)
    return (cx + c * ex - s * ey, cy + s * ex + c * ey)


def pt_eq(p, q, tol=0.0):
    if p is None or q is None:
        return p is None and (q is None or q == [])
    if q == []:
        return False
    try:
        if tol == 0.0:
            return float(p[0]) == float(q[0]) and float(p[1]) == float(q[1])
        return close(float(p[0]), float(q[0]), tol) and close(float(p[1]), float(q[1]), tol)
    except (TypeError, ValueError):
        return False


def compare_segs(svg, path, expected, tol=0.0, arc_tol=1e-9):
    """Compare a real Path with the spec's segs.  Returns a list of disagreements
    (clause, detail).  Arcs: end points exactly, and sampled points against the arc the
    constructor builds from the spec's arguments (C05 owns what that constructor means)."""
    dis = []
    got = project(path)
    if len(got) != len(expected):
        dis.append({"clause": "Count", "detail": "expected %d segments %s, got %d %s" % (
            len(expected), "".join(e[0] for e in expected), len(got), "".join(g[0] for g in got))})
        return dis
    for i, (g, e) in enumerate(zip(got, expected)):
        if g[0] != e[0]:
            dis.append({"clause": "Kind", "detail": "segment %d: expected %s got %s" % (i, e[0], g[0])})
            continue
        if e[0] != "M" and not pt_eq(g[1], e[1], tol):
            dis.append({"clause": "Start", "detail": "segment %d (%s): expected start %s got %s" % (i, e[0], e[1], g[1])})
        if not pt_eq(g[4], e[4], tol):
            dis.append({"clause": "End", "detail": "segment %d (%s): expected end %s got %s" % (i, e[0], e[4], g[4])})
        if e[0] in ("Q", "C") and not pt_eq(g[2], e[2], tol):
            dis.append({"clause": "Control1", "detail": "segment %d (%s): expected control %s got %s" % (i, e[0], e[2], g[2])})
        if e[0] == "C" and not pt_eq(g[3], e[3], tol):
            dis.append({"clause": "Control2", "detail": "segment %d (C): expected control2 %s got %s" % (i, e[3], g[3])})
        if e[0] == "A" and pt_eq(g[1], e[1], tol) and pt_eq(g[4], e[4], tol):
            rx, ry, rot = e[2]
            fa, fs = e[3]
            ref = svg.Arc(svg.Point(*e[1]), abs(rx), abs(ry), rot, bool(fa), bool(fs), svg.Point(*e[4]))
            real = path[i]
            for t in (0.25, 0.5, 0.75):
                p, q = real.point(t), ref.point(t)
                if not (close(p.x, q.x, arc_tol) and close(p.y, q.y, arc_tol)):
                    dis.append({"clause": "ArcArgs", "detail": "segment %d: arc point(%s)=%s, arc of the given arguments %s gives %s" % (i, t, p, e[2] + e[3], q)})
                    break
    return dis


def connectivity(path):
    """The property's closing sentence, recomputed from public fields."""
    dis = []
    zp = None
    prev = None
    for i, seg in enumerate(path):
        k = KIND.get(type(seg).__name__)
        if k == "M":
            zp = seg.end
        elif prev is not None:
            if seg.start is None or prev.end is None or seg.start != prev.end:
                dis.append({"clause": "Connected", "detail": "segment %d starts at %s, predecessor ended at %s" % (i, seg.start, prev.end)})
        if k == "Z" and zp is not None and seg.end != zp:
            dis.append({"clause": "CloseReturns", "detail": "close %d ends at %s, sub-path started at %s" % (i, seg.end, zp)})
        prev = seg
    return dis
