"""C01 binding B: traces recorded from the real parser, validated by TLC against PathInterp."""
import json
import os
import random
from . import engine
from .pathutil import KIND

svg = None
ARITY = {"M": 2, "L": 2, "T": 2, "H": 1, "V": 1, "C": 6, "S": 4, "Q": 4, "A": 7, "Z": 0}


def fx(v):
    """fixed-point integer (1/1000) of a float that must be a multiple of 1/1000"""
    r = round(v * 1000.0)
    if abs(v * 1000.0 - r) > 1e-4:
        return None
    return int(r)


def dec(n):
    s = "-" if n < 0 else ""
    n = abs(n)
    return "%s%d.%03d" % (s, n // 1000, n % 1000) if n % 1000 else "%s%d" % (s, n // 1000)


def gen_commands(rng, n):
    cmds = []
    have_move = False
    for i in range(n):
        if not have_move:
            letter = rng.choice("Mm")
        else:
            letter = rng.choice("MmLlHhVvCcSsQqTtAaZzLlCcQqSsTt")
        have_move = True
        U = letter.upper()
        cz = U in "LCSQTA" and rng.random() < 0.08
        args = []
        if U == "A":
            args = [rng.randint(1, 50000), rng.randint(1, 50000), rng.randint(-360000, 360000), rng.randint(0, 1), rng.randint(0, 1)]
            if not cz:
                args += [rng.randint(-20000, 20000), rng.randint(-20000, 20000)]
        else:
            k = ARITY[U] - (2 if cz else 0)
            args = [rng.randint(-20000, 20000) for _ in range(k)]
            if rng.random() < 0.15:
                args = [a // 1000 * 1000 for a in args]
        cmds.append((letter, args, cz))
    return cmds


def to_d(cmds, rng):
    out = []
    for letter, args, cz in cmds:
        out.append(letter)
        if letter.upper() == "A":
            parts = [dec(args[0]), dec(args[1]), dec(args[2]), str(args[3]), str(args[4])] + [dec(a) for a in args[5:]]
        else:
            parts = [dec(a) for a in args]
        out.append(rng.choice([" ", ","]).join(parts) if parts else "")
        if cz:
            out.append("z")
    return " ".join(x for x in out if x != "")


class Recorder:
    """builder proxy: forwards every callback to a real Path and notes how many segments each callback appended"""

    def __init__(self, path):
        self.path = path
        self.groups = []

    @property
    def current_point(self):
        return self.path.current_point

    def __getattr__(self, name):
        target = getattr(self.path, name)
        if name in ("move", "line", "horizontal", "vertical", "quad", "smooth_quad", "cubic", "smooth_cubic", "arc", "closed"):
            def wrapped(*a, **k):
                before = len(self.path)
                r = target(*a, **k)
                self.groups.append((name, before, len(self.path)))
                return r
            return wrapped
        return target


def seg_rec(seg):
    k = KIND[type(seg).__name__]

    def p(q):
        if q is None:
            return []
        x, y = fx(q.x), fx(q.y)
        return ["inexact"] if x is None or y is None else [x, y]
    if k == "M":
        return ["M", [], [], [], p(seg.end)]
    if k in ("L", "Z"):
        return [k, p(seg.start), [], [], p(seg.end)]
    if k == "Q":
        return ["Q", p(seg.start), p(seg.control), [], p(seg.end)]
    if k == "C":
        return ["C", p(seg.start), p(seg.control1), p(seg.control2), p(seg.end)]
    return ["A", p(seg.start), [], [], p(seg.end)]


def record(cmds, d):
    path = svg.Path()
    rec = Recorder(path)
    svg.SVGLexicalParser().parse(rec, d)
    # pair callbacks with source commands: a completing z makes one extra 'closed' callback
    events = []
    gi = 0
    for letter, args, cz in cmds:
        n = 2 if cz else 1
        grp = rec.groups[gi:gi + n]
        gi += n
        if len(grp) < n:
            return None
        segs = [seg_rec(path[i]) for g in grp for i in range(g[1], g[2])]
        if letter.upper() == "A":
            # the arc record carries its arguments (the constructor's meaning is C05)
            for s_ in segs:
                if s_[0] == "A":
                    s_[2] = args[0:3]
                    s_[3] = args[3:5]
        events.append({"cmd": letter, "args": args, "cz": bool(cz), "segs": segs})
    if gi != len(rec.groups):
        return None
    return events


def run_into(run, work, tier, seed):
    global svg
    svg = engine.import_lib()
    rng = random.Random(seed * 7919 + 17)
    ntr = 400 if tier == "quick" else 4000
    traces, sources = [], []
    for t in range(ntr):
        cmds = gen_commands(rng, rng.randint(3, 25))
        d = to_d(cmds, rng)
        try:
            ev = record(cmds, d)
        except Exception as e:
            run.record({"trace_d": d}, {"dis": [{"clause": "TraceRaises", "detail": "%s while parsing conforming data %r" % (type(e).__name__, d)}], "nontrivial": True}, key="tr%d" % t)
            continue
        if ev is None:
            run.record({"trace_d": d}, {"dis": [{"clause": "TraceCallbacks", "detail": "callbacks do not pair with the commands of %r" % d}], "nontrivial": True}, key="tr%d" % t)
            continue
        traces.append(ev)
        sources.append(d)
    tf = os.path.join(work, "traces_c01.json")
    with open(tf, "w") as f:
        json.dump(traces, f)
    res = engine.run_tlc(work, "Trace_C01", constants={}, init="TInit", next_="TNext", invariants=["Report", "TConnected"], dump=False, workers=1,
                         env={"TRACE_FILE": tf}, timeout=1800)
    run.add_tlc(res, "trace validation of %d recorded parser traces" % len(traces))
    rejected = {r[1]: r[2] for r in engine.printed_tuples(res["out"], "REJECT")}
    for i, (ev, d) in enumerate(zip(traces, sources), 1):
        run.traces += 1
        if i in rejected:
            clause = rejected[i]
            run.violations.append({"case": {"trace_d": d, "events": ev}, "dis": {"clause": "Trace:" + clause.split("@")[0], "detail": "TLC rejects the recorded trace of %r at %s" % (d, clause)}})
    if traces:
        run.sample({"recorded_trace_of": sources[0], "events": traces[0][:3]})
    run.extra["traces_recorded"] = len(traces)
    run.extra["traces_rejected_by_tlc"] = len(rejected)
    # binding demonstration (self-test): a corrupted field and a dropped event must be rejected
    bad = json.loads(json.dumps(traces[:20]))
    k = 0
    for tr in bad[:10]:
        tr[-1]["segs"][-1][4] = [tr[-1]["segs"][-1][4][0] + 1, tr[-1]["segs"][-1][4][1]] if tr[-1]["segs"][-1][4] else [1, 1]
    for tr in bad[10:]:
        if len(tr) > 2:
            del tr[1]
            k += 1
    with open(tf, "w") as f:
        json.dump(bad, f)
    res2 = engine.run_tlc(work, "Trace_C01", constants={}, init="TInit", next_="TNext", invariants=["Report"], dump=False, workers=1, env={"TRACE_FILE": tf}, timeout=600)
    rej2 = {r[1] for r in engine.printed_tuples(res2["out"], "REJECT")}
    run.extra["binding_selftest"] = {"corrupted_or_truncated_traces": len(bad), "rejected": len(rej2)}
    if len(rej2) < 10:
        raise engine.MachineryError("trace validation self-test: only %d of %d corrupted traces rejected" % (len(rej2), len(bad)))
