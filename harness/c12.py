"""C12 - length units resolve by CSS ratios; length arithmetic agrees with values.

MC_C12 (CssLength.tla, exact rationals): mode "un" = every (amount, unit) x context cell with the
resolved value (or SYM) and the mm/cm/in conversions; mode "bin" = every ordered pair of lengths
with sum, difference, ratio, order and equality evaluated in two fully resolving contexts.  The
real Length must agree in every cell; a result it returns for an incommensurable pair must be right
in BOTH contexts (i.e. it may stay symbolic or raise ValueError, never guess)."""
import re
from fractions import Fraction
from . import engine

svg = None


def worker_init():
    global svg
    svg = engine.import_lib()


def rat(q):
    return Fraction(q[0], q[1])


def amount_str(fr, k):
    v = float(fr)
    if k % 11 == 4 and v != 0:
        # scientific notation (CSS number grammar): mantissa with at most 4 digits, exact
        for ex in (2, 1, -1, -2):
            m = fr / Fraction(10) ** ex
            if (m * 1000).denominator == 1 and 1 <= abs(m) < 10:
                ms = repr(float(m))
                if ms.endswith(".0"):
                    ms = ms[:-2]
                return "%s%s%d" % (ms, "e" if k % 2 else "E", ex)
    if fr.denominator == 1:
        n = fr.numerator
        if n == 10 and k % 2:
            return "1e1"
        if n >= 0 and k % 5 == 3:
            return "+%d" % n
        if k % 7 == 2:
            return "%d.0" % n
        return str(n)
    s = repr(v)
    if s.startswith("0.") and k % 2:
        return s[1:]
    if s.startswith("-0.") and k % 2:
        return "-" + s[2:]
    return s


def length_str(l, k=0):
    return amount_str(rat(l[0]), k) + l[1]


def kwargs_of(ctx, k=0):
    ppi, ref, fs, fh, vb = ctx
    kw = {}
    if ppi:
        kw["ppi"] = float(rat(ppi))
    if ref:
        if ref[1] == "":
            v = float(rat(ref[0]))
            kw["relative_length"] = [v, str(int(v)) if v == int(v) else repr(v), svg.Length(v)][k % 3]
        else:
            s = length_str(ref)
            kw["relative_length"] = [s, svg.Length(s)][k % 2]
    if fs:
        kw["font_size"] = float(rat(fs))
    if fh:
        kw["font_height"] = float(rat(fh))
    if vb:
        s = "0 0 %d %d" % (rat(vb[0]), rat(vb[1]))
        kw["viewbox"] = [s, svg.Viewbox(s)][k % 2]
    return kw


CTXA = [[96, 1], [[200, 1], ""], [10, 1], [4, 1], [[300, 1], [200, 1]]]
CTXB = [[72, 1], [[50, 1], ""], [16, 1], [7, 1], [[100, 1], [200, 1]]]
SYM = ["sym"]


def near(got, want):
    want = float(want)
    return abs(got - want) <= 1e-9 * max(1.0, abs(want))


def relerr(got, want):
    want = float(want)
    return abs(got - want) / max(abs(want), 1e-300)


def is_num(v):
    return isinstance(v, (int, float)) and not isinstance(v, bool)


def resolve(r, ctx):
    if is_num(r):
        return r
    return r.value(**kwargs_of(ctx))


def check_un(case):
    x, ctx, exp, k = case["x"], case["ctx"], case["exp"], case["seed"] + case["n"]
    s = length_str(x, k)
    dis = []
    kw = kwargs_of(ctx, k)
    what = "Length(%r).value(%s)" % (s, ", ".join("%s=%r" % kv for kv in sorted(kw.items())))
    try:
        v = svg.Length(s).value(**kw)
    except engine.CaseTimeout:
        raise
    except Exception as e:
        return [{"clause": "ValueRaises", "detail": "%s raised %s: %s" % (what, type(e).__name__, str(e)[:60])}]
    if exp[0] == SYM:
        if is_num(v) and rat(x[0]) != 0:
            dis.append({"clause": "Guessed", "detail": "%s = %r although the context cannot resolve it" % (what, v)})
        # a unit conversion of a length that cannot be resolved even with the default ppi: an exception or the unchanged
        # symbolic length are both fine; a number of millimetres / inches, or the same unit with another amount, is a guess
        kw96 = dict(kw)
        kw96.setdefault("ppi", 96.0)
        try:
            unresolved = not is_num(svg.Length(s).value(**kw96))
        except Exception:
            unresolved = False
        if unresolved and rat(x[0]) != 0:
            for nm, meth in (("mm", "to_mm"), ("cm", "to_cm"), ("in", "to_inch")):
                try:
                    r = getattr(svg.Length(s), meth)(**kw)
                except engine.CaseTimeout:
                    raise
                except Exception:
                    continue
                same_as_value = isinstance(r, svg.Length) and isinstance(v, svg.Length) and r.units == v.units and abs(r.amount - v.amount) <= 1e-12 * max(1.0, abs(r.amount))
                if not same_as_value and (not isinstance(r, svg.Length) or r.units == nm or not (r.units == x[1] and abs(r.amount - float(rat(x[0]))) <= 1e-12 * max(1.0, abs(r.amount)))):
                    dis.append({"clause": "Convert:Guessed", "detail": "Length(%r).%s(%s) = %r although the context cannot resolve the length" % (s, meth, kw, r), "target": nm})
    else:
        want = rat(exp[0])
        if not is_num(v):
            dis.append({"clause": "StaysSymbolic", "detail": "%s = %r, expected %s" % (what, v, want)})
        elif not near(v, want):
            dis.append({"clause": "Value", "detail": "%s = %r, expected %s = %r" % (what, v, want, float(want)), "rel_err": relerr(v, want)})
        for i, (nm, meth) in enumerate((("mm", "to_mm"), ("cm", "to_cm"), ("in", "to_inch"))):
            if exp[i + 1] == SYM:
                continue
            try:
                r = getattr(svg.Length(s), meth)(**kw)
                got = r.amount
                unit = r.units
            except engine.CaseTimeout:
                raise
            except Exception as e:
                dis.append({"clause": "ConvertRaises", "detail": "%s -> %s raised %s" % (what, meth, type(e).__name__)})
                continue
            w = rat(exp[i + 1])
            if unit != nm or not (abs(got - float(w)) <= 1e-9 * max(1.0, abs(float(w))) + 5e-13):
                dis.append({"clause": "Convert", "detail": "Length(%r).%s(%s) = %r, expected %s%s" % (s, meth, kw, r, float(w), nm),
                            "rel_err": relerr(got, w), "target": nm})
    # a percentage of a reference that is itself a percentage is that fraction of it - still a percentage, or an exception,
    # but not the product of the two amounts
    if x[1] == "%" and rat(x[0]) != 0:
        for ref in ("40%", svg.Length("40%")):
            try:
                r = svg.Length(s).value(relative_length=ref)
            except engine.CaseTimeout:
                raise
            except Exception:
                continue
            want = float(rat(x[0])) * 0.4
            if not (isinstance(r, svg.Length) and r.units == "%" and abs(r.amount - want) <= 1e-9 * max(1.0, abs(want))):
                dis.append({"clause": "PercentOfPercent", "detail": "Length(%r).value(relative_length=%r) = %r, %s%% of 40%% is %r%%" % (s, ref, r, float(rat(x[0])), want)})
    # the context-free helpers agree with the CSS ratios (px = 1, pt = 4/3, pc = 16, in = 1 inch)
    amt = rat(x[0])
    try:
        L = svg.Length(s)
        if x[1] in ("", "px", "pt", "pc"):
            w = amt * {"": 1, "px": 1, "pt": Fraction(4, 3), "pc": 16}[x[1]]
            g = L.in_pixels()
            if not is_num(g) or not near(g, w):
                dis.append({"clause": "Convert", "detail": "Length(%r).in_pixels() = %r, expected %r" % (s, g, float(w)), "target": "px"})
        if x[1] == "in":
            g = L.in_inches()
            if not is_num(g) or not near(g, amt):
                dis.append({"clause": "Convert", "detail": "Length(%r).in_inches() = %r, expected %r" % (s, g, float(amt)), "target": "in"})
    except engine.CaseTimeout:
        raise
    except Exception as e:
        dis.append({"clause": "ConvertRaises", "detail": "Length(%r).in_pixels()/in_inches() raised %s" % (s, type(e).__name__)})
    for d in dis:
        d["units"] = [x[1]] + ([ctx[1][1]] if ctx[1] else [])
        d["mm_cm_involved"] = any(u in ("mm", "cm") for u in d["units"]) or d.get("target") in ("mm", "cm")
    return dis


def check_bin(case):
    x, y, exp, k = case["x"], case["y"], case["exp"], case["seed"] + case["n"]
    comm, sumA, sumB, difA, difB, ratA, ratB, ltA, ltB, eqA, eqB = exp
    sa, sb = length_str(x, k), length_str(y, k + 1)
    dis = []

    def operand_b():
        if y[1] == "" and k % 3 == 2:
            return float(rat(y[0]))               # a unitless length given as the bare number
        return [svg.Length(sb), sb][k % 2] if True else None

    def arith(name, fn, wa, wb):
        what = "Length(%r) %s %s" % (sa, name, "Length(%r)" % sb if k % 2 == 0 else repr(sb))
        try:
            r = fn(svg.Length(sa), operand_b())
        except ValueError:
            if comm:
                dis.append({"clause": name + ":Raises", "detail": "%s raised ValueError although the units are commensurable" % what})
            return
        except engine.CaseTimeout:
            raise
        except Exception as e:
            dis.append({"clause": name + ":Raises", "detail": "%s raised %s: %s" % (what, type(e).__name__, str(e)[:50])})
            return
        for ctx, want, cn in ((CTXA, wa, "A"), (CTXB, wb, "B")):
            try:
                v = resolve(r, ctx)
            except Exception as e:
                dis.append({"clause": name + ":ResultUnusable", "detail": "%s = %r; resolving it raised %s" % (what, r, type(e).__name__)})
                return
            if not is_num(v):
                if comm:
                    dis.append({"clause": name + ":StaysSymbolic", "detail": "%s = %r does not resolve in a full context" % (what, r)})
                return
            if not near(v, rat(want)):
                dis.append({"clause": name + (":Value" if comm else ":Guessed"), "rel_err": relerr(v, rat(want)),
                            "detail": "%s = %r resolves to %r (ppi %s), expected %s = %r" % (what, r, v, rat(ctx[0]), rat(want), float(rat(want)))})
                return
    arith("+", lambda a, b: a + b, sumA, sumB)
    arith("-", lambda a, b: a - b, difA, difB)
    # the reflected operators: the LEFT operand is a string (a - b with a given as text, b as Length)
    if comm:
        for name, fn, wa, wb in (("r-", lambda: sa - svg.Length(sb), difA, difB), ("r+", lambda: sa + svg.Length(sb), sumA, sumB)):
            what = "%r %s Length(%r)" % (sa, name[1], sb)
            try:
                r = fn()
                for ctx, want in ((CTXA, wa), (CTXB, wb)):
                    v = resolve(r, ctx)
                    if is_num(v) and not near(v, rat(want)):
                        dis.append({"clause": name[1] + ":Value", "reflected": True, "rel_err": relerr(v, rat(want)),
                                    "detail": "%s = %r resolves to %r (ppi %s), expected %s = %r" % (what, r, v, rat(ctx[0]), rat(want), float(rat(want)))})
                        break
            except (ValueError, TypeError):
                pass        # a string on the left need not be supported for every unit pair; a wrong VALUE is what counts
            except engine.CaseTimeout:
                raise
            except Exception as e:
                dis.append({"clause": name + ":Raises", "detail": "%s raised %s" % (what, type(e).__name__)})

    def iadd(a, b):
        a += b
        return a
    arith("+=", iadd, sumA, sumB)

    def isub(a, b):
        a -= b
        return a
    arith("-=", isub, difA, difB)
    # unary and scalar operators agree with the same operation on the resolved value (first operand alone)
    try:
        va0 = resolve(svg.Length(sa), CTXA)
        if is_num(va0):
            for name, fn, want in (("neg", lambda a: -a, -va0), ("abs", lambda a: abs(a), abs(va0)), ("*3", lambda a: a * 3, 3 * va0),
                                   ("3*", lambda a: 3 * a, 3 * va0), ("/4", lambda a: a / 4, va0 / 4.0)):
                r = fn(svg.Length(sa))
                v = resolve(r, CTXA) if not is_num(r) else r
                if not is_num(v) or abs(v - want) > 1e-9 * max(1.0, abs(want)):
                    dis.append({"clause": "Scalar", "op": name, "detail": "%s of Length(%r) = %r resolves to %r, expected %r" % (name, sa, r, v, want)})
    except engine.CaseTimeout:
        raise
    except Exception as e:
        dis.append({"clause": "Scalar:Raises", "detail": "scalar operators on Length(%r) raised %s: %s" % (sa, type(e).__name__, str(e)[:50])})
    if ratA != []:
        what = "Length(%r) / Length(%r)" % (sa, sb)
        try:
            q = svg.Length(sa) / svg.Length(sb)
            if not is_num(q):
                dis.append({"clause": "/:Type", "detail": "%s = %r" % (what, q)})
            elif not (near(q, rat(ratA)) and near(q, rat(ratB))):
                dis.append({"clause": "/:Value" if comm else "/:Guessed", "rel_err": relerr(q, rat(ratA)),
                            "detail": "%s = %r, expected %s (ppi 96) / %s (ppi 72)" % (what, q, float(rat(ratA)), float(rat(ratB)))})
        except ValueError:
            if comm:
                dis.append({"clause": "/:Raises", "detail": "%s raised ValueError although the units are commensurable" % what})
        except engine.CaseTimeout:
            raise
        except Exception as e:
            dis.append({"clause": "/:Raises", "detail": "%s raised %s" % (what, type(e).__name__)})
    if comm:
        for name, fn, want in (("<", lambda a, b: a < b, ltA), ("<=", lambda a, b: a <= b, ltA or eqA),
                               (">", lambda a, b: a > b, not ltA and not eqA), (">=", lambda a, b: a >= b, not ltA)):
            what = "Length(%r) %s Length(%r)" % (sa, name, sb)
            try:
                got = fn(svg.Length(sa), operand_b())
                if bool(got) != bool(want):
                    dis.append({"clause": "Order", "op": name, "detail": "%s is %r, expected %r" % (what, got, want)})
            except engine.CaseTimeout:
                raise
            except Exception as e:
                dis.append({"clause": "Order:Raises", "op": name, "detail": "%s raised %s" % (what, type(e).__name__)})
    what = "Length(%r) == %s" % (sa, "Length(%r)" % sb if k % 2 == 0 else repr(sb))
    try:
        got = svg.Length(sa) == operand_b()
        ne = svg.Length(sa) != operand_b()
        if bool(got) == bool(ne):
            dis.append({"clause": "EqNeInconsistent", "detail": "%s is %r and != is %r" % (what, got, ne)})
        if comm and bool(got) != bool(eqA):
            dis.append({"clause": "Equality", "detail": "%s is %r, values are %s" % (what, got, "equal" if eqA else "different")})
        if not comm and got and not (eqA and eqB):
            dis.append({"clause": "Equality:Guessed", "detail": "%s is True although the values differ in some context" % what})
        if not comm and not got and rat(x[0]) == 0 and rat(y[0]) == 0:
            # zero is zero in every unit and every context: the two lengths resolve equal whatever information is supplied
            dis.append({"clause": "Equality:Zero", "detail": "%s is False although both lengths are zero in every context" % what})
    except engine.CaseTimeout:
        raise
    except Exception as e:
        dis.append({"clause": "Equality:Raises", "detail": "%s raised %s" % (what, type(e).__name__)})
    # the binary operators build a new length: a later in-place operation on the result leaves both operands as they were
    for name, fn in (("+", lambda a, b: a + b), ("-", lambda a, b: a - b)):
        try:
            a0, b0 = svg.Length(sa), svg.Length(sb)
            r = fn(a0, b0)
            if isinstance(r, svg.Length):
                if r is a0 or r is b0:
                    dis.append({"clause": "OperandReturned", "detail": "Length(%r) %s Length(%r) returned one of its operands" % (sa, name, sb)})
                r *= 3
                r += svg.Length(sb)
                if (a0.amount, a0.units) != (svg.Length(sa).amount, svg.Length(sa).units) or (b0.amount, b0.units) != (svg.Length(sb).amount, svg.Length(sb).units):
                    dis.append({"clause": "OperandModified", "detail": "after r = Length(%r) %s Length(%r); r *= 3; r += ...: operands are %r and %r" % (sa, name, sb, a0, b0)})
            a1, b1 = svg.Length(sa), svg.Length(sb)
            a1 += b1
            a1 *= 3
            if (b1.amount, b1.units) != (svg.Length(sb).amount, svg.Length(sb).units):
                dis.append({"clause": "OperandModified", "detail": "after a = Length(%r); a += b; a *= 3 the operand b = Length(%r) is %r" % (sa, sb, b1)})
        except engine.CaseTimeout:
            raise
        except Exception:
            pass          # (incommensurable pairs may raise: the arithmetic clauses above decide those)
    va = abs(float((rat(sumA) + rat(difA)) / 2))
    vb = abs(float((rat(sumA) - rat(difA)) / 2))
    for d in dis:
        d["units"] = [x[1], y[1]]
        d["mm_cm_involved"] = any(u in ("mm", "cm") for u in d["units"])
        d["tie"] = bool(eqA)
        if "rel_err" in d and not d["clause"].startswith("/"):
            # error relative to the larger operand (a difference of nearly equal lengths amplifies the relative error of the result)
            m = re.search(r"resolves to (\S+) \(ppi (\d+)\), expected \S+ = (\S+)$", d["detail"])
            if m and max(va, vb) > 0:
                scale = (va + vb) if m.group(2) == "96" else None
                if scale:
                    d["rel_err"] = abs(float(m.group(1)) - float(m.group(3))) / scale
    return dis


def check_case(case):
    dis = check_un(case) if case["mode"] == "un" else check_bin(case)
    if case["mode"] == "un":
        cls = "un:%s:%s" % (case["x"][1], "".join("1" if c else "0" for c in case["ctx"]))
    else:
        cls = "bin:%s:%s" % (case["x"][1], case["y"][1])
    return {"dis": dis, "nontrivial": rat(case["x"][0]) != 0, "class": cls,
            "checked": ["Value", "Guessed", "Convert"] if case["mode"] == "un" else ["+", "-", "+=", "/", "Order", "Equality"]}


def cases_from_dump(path, seed):
    n = 0
    for st in engine.read_dump(path):
        n += 1
        yield {"mode": st["mode"], "x": st["x"], "y": st["y"], "ctx": st["ctx"], "exp": st["exp"], "seed": seed, "n": n}


def run(tier, seed):
    run = engine.Run("C12", tier, seed)
    work = engine.workdir("C12")
    try:
        consts = {"Full": "FALSE" if tier == "quick" else "TRUE"}
        res = engine.run_tlc(work, "MC_C12", constants=consts, invariants=["Cycle", "ContextFree", "Reflexive"])
        run.add_tlc(res, "CssLength cells, %s" % consts)
        n = 0
        for case, r in engine.replay("harness.c12", cases_from_dump(res["dump"], seed), chunk=400):
            run.record(case, r, key=(r["class"] + str(case["x"][0]) + str(case["y"] and case["y"][0])))
            if n % 7000 == 11:
                run.sample({k: case[k] for k in ("mode", "x", "y", "ctx", "exp")})
            n += 1
    finally:
        engine.cleanup(work)
    run.rule = ("cases = initial states of MC_C12: (amount, unit) x context for value()/to_mm/to_cm/to_inch and ordered pairs of (amount, unit) "
                "for + - += / < <= > >= == != ; exhaustive over the 14 units and the amount table; non-trivial = first amount non-zero")
    run.assumptions = ["tolerance 1e-9 relative", "incommensurable pairs may raise ValueError or stay symbolic; a returned value must be right in both contexts"]
    return run.finish()


def replay_case(case):
    worker_init()
    return check_case(case)
