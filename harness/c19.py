"""C19 - arc-to-Bezier conversion keeps end points, continuity and a bounded error.

MC_C19: (struct) abstract paths with arcs / zero-extent arcs at every position x slice counts: the
conversion contract of ArcApprox.tla (connected, everything else untouched, count) is model-checked
and each case is realised on real paths; (metric) the concrete arc table x position x subdivision
setting, measured with the distance-to-ellipse comparator."""
import math
from fractions import Fraction
from . import engine, c02

svg = None


def worker_init():
    global svg
    svg = engine.import_lib()
    c02.svg = svg


def rat(q):
    return Fraction(q[0], q[1])


def PT(i):
    return svg.Point(10.0 * i + (i * i) % 3, 4.0 * ((i * 7) % 5) - i)


def samepoint(p, q):
    return p is not None and q is not None and p.x == q.x and p.y == q.y


def check_struct(case):
    dis = check_struct1(case, False)
    if "A" in case["arg"][0]:
        # the same path with a ZERO-RADIUS arc in place of every arc: such an arc is the straight line between its end points
        # (SVG F.6.2), not an arc of zero extent - it is replaced by curves along that line and its neighbours stay put
        dis += check_struct1(case, True)
    return dis


def check_struct1(case, zero_radius):
    w, n = case["arg"]
    exp = case["exp"]
    dis = []
    segs = [svg.Move(None, PT(1))]
    cur = 1
    kinds = []
    for k in w:
        if k == "L":
            segs.append(svg.Line(PT(cur), PT(cur + 1)))
            cur += 1
        elif k == "A":
            segs.append(svg.Arc(PT(cur), 0 if zero_radius else 40, 25, 20, 0, 1, PT(cur + 1)))
            cur += 1
        else:
            segs.append(svg.Arc(PT(cur), 40, 25, 20, 0, 1, PT(cur)))
        kinds.append(k)
    for api in ("cubics", "quads", "slices_cubic", "slices_quad"):
        p = svg.Path(*[type(s)(*[svg.Point(q) if q is not None else None for q in (s.start, s.end)]) if isinstance(s, (svg.Move, svg.Line)) else
                       svg.Arc(svg.Point(s.start), svg.Point(s.end), svg.Point(s.center), svg.Point(s.prx), svg.Point(s.pry), s.sweep) for s in segs])
        what = "path M%s%s with %s (n=%d)" % ("".join(w if len(w) == 1 else "a" for w in kinds), " (zero-radius arcs)" if zero_radius else "", api, n)
        try:
            if api == "cubics":
                p.approximate_arcs_with_cubics()
            elif api == "quads":
                p.approximate_arcs_with_quads()
            else:
                for i in range(len(p) - 1, -1, -1):
                    if isinstance(p[i], svg.Arc):
                        p[i:i + 1] = list(p[i].as_cubic_curves(n) if api == "slices_cubic" else p[i].as_quad_curves(n))
        except engine.CaseTimeout:
            raise
        except Exception as e:
            dis.append({"clause": "Raises", "detail": "%s raised %s: %s" % (what, type(e).__name__, str(e)[:60])})
            continue
        got = list(p)
        if any(isinstance(g, svg.Arc) for g in got):
            dis.append({"clause": "ArcLeft", "detail": "%s: an arc remains" % what})
        # walk the expected abstract path: M, then per original segment either the same line or a chain
        want_cls = svg.CubicBezier if "cubic" in api else svg.QuadraticBezier
        j = 1
        ok = isinstance(got[0], svg.Move) and samepoint(got[0].end, PT(1))
        if not ok:
            dis.append({"clause": "NeighbourChanged", "detail": "%s: the leading move changed: %r" % (what, got[0])})
        cur = 1
        for k in kinds:
            if k == "L":
                if j >= len(got) or not isinstance(got[j], svg.Line) or not samepoint(got[j].start, PT(cur)) or not samepoint(got[j].end, PT(cur + 1)):
                    dis.append({"clause": "NeighbourChanged", "detail": "%s: line %d->%d is now %r" % (what, cur, cur + 1, got[j] if j < len(got) else None)})
                    break
                j += 1
                cur += 1
            elif k == "A":
                m = 0
                first = j
                while j < len(got) and isinstance(got[j], want_cls) and not (m > 0 and samepoint(got[j - 1].end, PT(cur + 1))):
                    j += 1
                    m += 1
                if m == 0:
                    dis.append({"clause": "EmptyChain", "detail": "%s: the arc %d->%d produced no curves" % (what, cur, cur + 1)})
                    break
                if api.startswith("slices") and m != n and not zero_radius:
                    dis.append({"clause": "SliceCount", "detail": "%s: %d curves for the arc %d->%d" % (what, m, cur, cur + 1)})
                if not samepoint(got[first].start, PT(cur)) or not samepoint(got[j - 1].end, PT(cur + 1)):
                    dis.append({"clause": "ChainEnds", "detail": "%s: chain runs %r -> %r, the arc ran %r -> %r" % (what, got[first].start, got[j - 1].end, PT(cur), PT(cur + 1))})
                cur += 1
            else:
                pass     # zero-extent arc: nothing is emitted
        if j != len(got) and not dis:
            dis.append({"clause": "ExtraSegments", "detail": "%s: %d segments, walked %d: %r" % (what, len(got), j, got)})
        for i in range(2, len(got)):
            if got[i].start is None or not samepoint(got[i].start, got[i - 1].end):
                dis.append({"clause": "Connected", "detail": "%s: segment %d starts at %r, predecessor ended at %r" % (what, i, got[i].start, got[i - 1].end)})
                break
    return dis


def ellipse_distance(a, b, x, y):
    """distance from (x, y) to the axis-aligned ellipse x^2/a^2 + y^2/b^2 = 1 (Newton on the parameter)"""
    if a <= 0 or b <= 0:
        return math.hypot(x, y)
    t = math.atan2(y / b, x / a)
    for _ in range(60):
        ct, st = math.cos(t), math.sin(t)
        ex, ey = a * ct, b * st
        # minimise |(ex - x, ey - y)|^2 : derivative and second derivative w.r.t. t
        dx, dy = -a * st, b * ct
        f = (ex - x) * dx + (ey - y) * dy
        df = dx * dx + dy * dy + (ex - x) * (-ex) + (ey - y) * (-ey)
        if df <= 0:
            break
        step = f / df
        t -= step
        if abs(step) < 1e-15:
            break
    best = math.hypot(a * math.cos(t) - x, b * math.sin(t) - y)
    return best


def check_metric(case):
    c, u, v, th0, e, dirn, turns, pos, sub = case["arg"]
    U = case.get("unit", 1.0)          # the same arc in another unit of length (the bounds are relative to the larger radius)
    cf, uf, vf = [tuple(x * U for x in c02.fpt(q)) for q in (c, u, v)]
    a, b = math.hypot(*uf), math.hypot(*vf)
    rot = math.atan2(uf[1], uf[0])
    cr, sr = math.cos(rot), math.sin(rot)
    ext = math.atan2(float(rat(e[1])), float(rat(e[0]))) % (2 * math.pi) + 2 * math.pi * turns
    signed = dirn * ext
    t0 = math.atan2(float(rat(th0[1])), float(rat(th0[0])))

    def f(t):
        th = t0 + t * signed
        return (cf[0] + uf[0] * math.cos(th) + vf[0] * math.sin(th), cf[1] + uf[1] * math.cos(th) + vf[1] * math.sin(th))
    P = svg.Point
    rmax = max(a, b)

    def mk():
        return svg.Arc(P(*f(0.0)), P(*f(1.0)), P(*cf), P(cf[0] + uf[0], cf[1] + uf[1]), P(cf[0] + vf[0], cf[1] + vf[1]), signed)

    def dist(p):
        x, y = p.x - cf[0], p.y - cf[1]
        return ellipse_distance(a, b, x * cr + y * sr, -x * sr + y * cr)
    dis = []
    A, B = P(f(0.0)[0] - 30 * U, f(0.0)[1] + 11 * U), P(f(1.0)[0] + 17 * U, f(1.0)[1] - 9 * U)
    for degree in ("cubic", "quad"):
        bound = 1e-3 if degree == "cubic" else 1e-2
        arc = mk()
        default_n = int(math.ceil(abs(signed) / (2 * math.pi / 12.0)))
        pre, post = [], []
        if pos in ("middle", "last"):
            pre = [svg.Move(None, P(A)), svg.Line(P(A), P(*f(0.0)))]
        else:
            pre = [svg.Move(None, P(*f(0.0)))]
        if pos in ("first", "middle"):
            post = [svg.Line(P(*f(1.0)), P(B))]
        path = svg.Path(*(pre + [arc] + post))
        what = "%s conversion (%s, %s) of arc a=%.4g b=%.4g rot=%.3f from %.3f over %.4f rad" % (degree, pos, sub, a, b, rot, t0, signed)
        try:
            if sub == "default":
                chain = list(arc.as_cubic_curves() if degree == "cubic" else arc.as_quad_curves())
                path2 = svg.Path(*(pre + [mk()] + post))
                (path2.approximate_arcs_with_cubics if degree == "cubic" else path2.approximate_arcs_with_quads)()
                chains = [("segment default", chain, True), ("path default", list(path2)[len(pre):len(path2) - len(post)], True)]
                rest = [(path2, len(pre), len(post))]
            elif sub in ("x2", "x4"):
                k = 2 if sub == "x2" else 4
                base = list(arc.as_cubic_curves(default_n) if degree == "cubic" else arc.as_quad_curves(default_n))
                fine = list(arc.as_cubic_curves(k * default_n) if degree == "cubic" else arc.as_quad_curves(k * default_n))
                chains = [("n=%d" % default_n, base, True), ("n=%d" % (k * default_n), fine, True)]
                rest = []
            elif sub == "n1":
                chains = [("n=1", list(arc.as_cubic_curves(1) if degree == "cubic" else arc.as_quad_curves(1)), False)]
                rest = []
            else:
                path2 = svg.Path(*(pre + [mk()] + post))
                (path2.approximate_arcs_with_cubics if degree == "cubic" else path2.approximate_arcs_with_quads)(error=0.02)
                chains = [("path error=0.02", list(path2)[len(pre):len(path2) - len(post)], True)]
                rest = [(path2, len(pre), len(post))]
        except engine.CaseTimeout:
            raise
        except Exception as ex:
            dis.append({"clause": "Raises", "detail": "%s raised %s: %s" % (what, type(ex).__name__, str(ex)[:60])})
            continue
        if sub == "default" and abs(signed) < 2 * math.pi - 1e-9 and abs(a - b) > 1e-9 * rmax:
            # the same end points through the SVG parameters, the x-axis rotation handed over as an Angle object, as a
            # float and as an int-valued float: whatever ellipse the constructor settles on, the arc's own end points lie
            # on it and the curves stay within the bound of it (measured against the OBJECT's centre, radii and rotation)
            large, sw = (1 if abs(signed) > math.pi else 0), (1 if signed > 0 else 0)
            for rname, rarg in (("Angle", svg.Angle.degrees(math.degrees(rot))), ("float", math.degrees(rot))):
                try:
                    a3 = svg.Arc(P(*f(0.0)), a, b, rarg, large, sw, P(*f(1.0)))
                    th = a3.get_rotation()
                    c3, s3 = math.cos(th), math.sin(th)

                    def d3(p):
                        x, y = p.x - a3.center.x, p.y - a3.center.y
                        return ellipse_distance(a3.rx, a3.ry, c3 * x + s3 * y, -s3 * x + c3 * y)
                    r3 = max(a3.rx, a3.ry)
                    if d3(a3.start) > 1e-7 * r3 or d3(a3.end) > 1e-7 * r3:
                        dis.append({"clause": "JointOffArc", "detail": "%s [SVG parameters, rotation as %s]: the arc's end points are %.3g and %.3g away from its own ellipse" % (
                            what, rname, d3(a3.start), d3(a3.end))})
                        continue
                    ch3 = list(a3.as_cubic_curves() if degree == "cubic" else a3.as_quad_curves())
                    worst = max([d3(g.point(j / 8.0)) for g in ch3 for j in range(9)] + [0.0])
                    if worst / r3 > bound:
                        dis.append({"clause": "ErrorBound", "degree": degree, "rel_dev": worst / r3,
                                    "detail": "%s [SVG parameters, rotation as %s]: points stray %.3g x the larger radius from the arc's ellipse (bound %g)" % (what, rname, worst / r3, bound)})
                except engine.CaseTimeout:
                    raise
                except Exception as ex:
                    dis.append({"clause": "Raises", "detail": "%s (SVG parameters, rotation as %s) raised %s: %s" % (what, rname, type(ex).__name__, str(ex)[:60])})
        if sub == "default":
            # the same arc OBJECT converted again after it was reversed in place (a conversion must not remember the old direction)
            try:
                a2 = mk()
                list(a2.as_cubic_curves() if degree == "cubic" else a2.as_quad_curves())
                a2.reverse()
                ch2 = list(a2.as_cubic_curves() if degree == "cubic" else a2.as_quad_curves())
                if not ch2:
                    dis.append({"clause": "EmptyChain", "detail": "%s: no curves for the reversed arc" % what})
                else:
                    s0, e1 = f(1.0), f(0.0)
                    if (ch2[0].start.x, ch2[0].start.y) != s0 or (ch2[-1].end.x, ch2[-1].end.y) != e1:
                        dis.append({"clause": "ChainEnds", "detail": "%s [converted, reversed, converted again]: chain runs %r -> %r, the reversed arc %r -> %r" % (what, ch2[0].start, ch2[-1].end, s0, e1)})
                    worst = max(dist(g.point(j / 8.0)) for g in ch2 for j in range(9))
                    if worst / rmax > bound:
                        dis.append({"clause": "ErrorBound", "degree": degree, "rel_dev": worst / rmax,
                                    "detail": "%s [converted, reversed, converted again]: points stray %.3g x the larger radius from the ellipse (bound %g)" % (what, worst / rmax, bound)})
            except engine.CaseTimeout:
                raise
            except Exception as ex:
                dis.append({"clause": "Raises", "detail": "%s (reversed and converted again) raised %s: %s" % (what, type(ex).__name__, str(ex)[:60])})
        if sub == "default" and pos in ("first", "alone"):
            # a path that BEGINS with the arc (no leading move): every arc must still be replaced
            try:
                path3 = svg.Path(mk(), *[svg.Line(svg.Point(g.start), svg.Point(g.end)) for g in post])
                (path3.approximate_arcs_with_cubics if degree == "cubic" else path3.approximate_arcs_with_quads)()
                if any(isinstance(g, svg.Arc) for g in path3):
                    dis.append({"clause": "ArcLeft", "detail": "%s: a path beginning with the arc still contains an Arc after the conversion: %r" % (what, [type(g).__name__ for g in path3])})
                else:
                    chains.append(("path beginning with the arc", list(path3)[:len(path3) - len(post)], True))
                # ... and closed: the close still returns to the start of the sub-path, the arc's start point
                s0p = svg.Point(*f(0.0))
                mid = svg.Point(s0p.x + 3 * U, s0p.y - 40 * U)
                path4 = svg.Path(mk(), svg.Line(svg.Point(*f(1.0)), svg.Point(mid)), svg.Close(svg.Point(mid), svg.Point(s0p)))
                (path4.approximate_arcs_with_cubics if degree == "cubic" else path4.approximate_arcs_with_quads)()
                cl = path4[len(path4) - 1]
                if not isinstance(cl, svg.Close) or not samepoint(cl.end, s0p) or not samepoint(cl.start, mid):
                    dis.append({"clause": "NeighbourChanged", "detail": "%s: closed path beginning with the arc: the close is now %r, it closed to %r" % (what, cl, s0p)})
            except engine.CaseTimeout:
                raise
            except Exception as ex:
                dis.append({"clause": "Raises", "detail": "%s (path beginning with the arc) raised %s: %s" % (what, type(ex).__name__, str(ex)[:60])})
        devs = []
        for name, ch, bounded in chains:
            w2 = "%s [%s]" % (what, name)
            if not ch:
                dis.append({"clause": "EmptyChain", "detail": "%s: no curves for a non-zero extent" % w2})
                continue
            want_cls = svg.CubicBezier if degree == "cubic" else svg.QuadraticBezier
            if any(type(g) is not want_cls for g in ch):
                dis.append({"clause": "ChainKind", "detail": "%s: %r" % (w2, [type(g).__name__ for g in ch])})
                continue
            s0, e1 = f(0.0), f(1.0)
            if (ch[0].start.x, ch[0].start.y) != s0 or (ch[-1].end.x, ch[-1].end.y) != e1:
                dis.append({"clause": "ChainEnds", "detail": "%s: chain runs %r -> %r, the arc %r -> %r" % (w2, ch[0].start, ch[-1].end, s0, e1)})
            for i in range(1, len(ch)):
                if not samepoint(ch[i].start, ch[i - 1].end):
                    dis.append({"clause": "Connected", "detail": "%s: curve %d starts at %r, previous ended at %r" % (w2, i, ch[i].start, ch[i - 1].end)})
                    break
            for i in range(len(ch) - 1):
                d = dist(ch[i].end)
                if d > 1e-9 * max(U, rmax):
                    dis.append({"clause": "JointOffArc", "detail": "%s: joint %d at %r is %.3g away from the ellipse" % (w2, i, ch[i].end, d)})
                    break
            worst = 0.0
            for g in ch:
                ns = case.get("samples", 32)
                for j in range(ns + 1):
                    worst = max(worst, dist(g.point(j / float(ns))))
            devs.append(worst / rmax)
            if bounded and worst / rmax > bound:
                dis.append({"clause": "ErrorBound", "degree": degree, "rel_dev": worst / rmax,
                            "detail": "%s: points stray %.3g x the larger radius from the ellipse (bound %g)" % (w2, worst / rmax, bound)})
        if sub in ("x2", "x4") and len(devs) == 2 and devs[1] > devs[0] * 1.0000001 + 1e-12:
            dis.append({"clause": "NotShrinking", "detail": "%s: deviation %.3g at the default count, %.3g at the finer one" % (what, devs[0], devs[1])})
        for path2, npre, npost in rest:
            got = list(path2)
            for i, g in enumerate(pre):
                if type(got[i]) is not type(g) or not samepoint(got[i].end, g.end):
                    dis.append({"clause": "NeighbourChanged", "detail": "%s: segment %d before the arc is now %r" % (what, i, got[i])})
            for i, g in enumerate(post):
                h = got[len(got) - len(post) + i]
                if type(h) is not type(g) or not samepoint(h.end, g.end) or not samepoint(h.start, g.start):
                    dis.append({"clause": "NeighbourChanged", "detail": "%s: segment after the arc is now %r" % (what, h)})
            for i in range(2, len(got)):
                if not samepoint(got[i].start, got[i - 1].end):
                    dis.append({"clause": "Connected", "detail": "%s: path segment %d starts at %r, predecessor ended at %r" % (what, i, got[i].start, got[i - 1].end)})
                    break
    for d in dis:
        d["ratio"] = max(a, b) / min(a, b)
    return dis


def check_case(case):
    dis = check_struct(case) if case["kind"] == "struct" else check_metric(case)
    for d in dis:
        d["kind"] = case["kind"]
    return {"dis": dis, "nontrivial": True, "class": case["kind"], "checked": ["ChainEnds", "Connected", "JointOffArc", "ErrorBound", "NotShrinking", "NeighbourChanged"]}


UNITS = [1e-3, 12345.0, 1e5, 0.37, 1.0 / 64]


def cases_from_dump(path, seed=0, samples=32):
    n = 0
    for st in engine.read_dump(path):
        n += 1
        case = {"kind": st["kind"], "arg": st["arg"], "exp": st["exp"], "samples": samples}
        if st["kind"] != "struct" and n % 3 == 0:
            case["unit"] = UNITS[(n // 3 + seed) % len(UNITS)]      # every third arc in another unit of length
        yield case


def run(tier, seed):
    run = engine.Run("C19", tier, seed)
    work = engine.workdir("C19")
    try:
        consts = {"Full": "FALSE" if tier == "quick" else "TRUE"}
        res = engine.run_tlc(work, "MC_C19", constants=consts, invariants=["StaysConnected", "CountRight", "EndsKept"])
        run.add_tlc(res, "ArcApprox structural contract + arc table, %s" % consts)
        n = 0
        for case, r in engine.replay("harness.c19", cases_from_dump(res["dump"], seed, 12 if tier == "quick" else 32), chunk=100):
            run.record(case, r, key=str(case["arg"]))
            if n % 1500 == 5:
                run.sample(case)
            n += 1
        run.extra["exhaustive"] = True
    finally:
        engine.cleanup(work)
    run.rule = ("cases = initial states of MC_C19: 27 abstract paths (line / arc / zero-extent arc at each of 3 positions) x slice counts x 4 APIs; "
                "arc table (radii ratios 1..100, rotations, 4 start angles, extents from 0.02 rad to 450 degrees, both directions) x position in a path x "
                "5 subdivision settings x {cubic, quadratic}")
    run.assumptions = ["deviation = true distance to the ellipse (Newton on the parameter) at 13 (quick) or 33 (thorough) samples per curve, not a supremum",
                       "bounds 1e-3 (cubic) / 1e-2 (quadratic) x larger radius at the segment default (30 degree slices) and the path default (error=0.1)"]
    return run.finish()


def replay_case(case):
    worker_init()
    return check_case(case)
