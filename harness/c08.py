"""C08 - bounding boxes contain the geometry and are tight.

MC_C08 (BBox.tla): every 1-D Bezier control tuple over 0..V with the exact sample bracket
[min - eps, min] / [max, max + eps]; lattice arcs with each side either an end point or the
ellipse extreme (exact square of the half extent) decided by rational sign tests; shapes and
containers with stroke growth.  The real bbox() must lie inside every bracket / equal every side."""
import math
from fractions import Fraction
from . import engine, c02

svg = None
OTHER = [0.0, 3.0, -2.0, 5.0]


def worker_init():
    global svg
    svg = engine.import_lib()
    c02.svg = svg


def rat(q):
    return Fraction(q[0], q[1])


def check_bez(case):
    axis, a = case["arg"]
    lo, hi, lo2, hi2, D = case["exp"]
    n = len(a)
    U = case.get("unit", 1.0)         # the same curve in another unit of length (boxes scale with the geometry)
    lo, hi, lo2, hi2 = lo * U, hi * U, lo2 * U, hi2 * U
    pts = []
    for i in range(n):
        v, o = float(a[i]) * U, OTHER[i] * U
        pts.append(svg.Point(v, o) if axis == 1 else svg.Point(o, v))
    seg = svg.QuadraticBezier(*pts) if n == 3 else svg.CubicBezier(*pts)
    dis = []
    forms = [("segment.bbox()", lambda: seg.bbox()),
             ("Path(M, segment).bbox()", lambda: svg.Path(svg.Move(None, svg.Point(pts[0])), type(seg)(*[svg.Point(p) for p in pts])).bbox()),
             ("reversed segment bbox", lambda: type(seg)(*[svg.Point(p) for p in reversed(pts)]).bbox()),
             # movetos that draw nothing (a stray one before the sub-path, a dangling one at the end) are not geometry
             ("Path(M far, M, segment, M far).bbox()", lambda: svg.Path(svg.Move(None, svg.Point(-1000 * U, 900 * U)), svg.Move(None, svg.Point(pts[0])),
                                                                       type(seg)(*[svg.Point(p) for p in pts]), svg.Move(None, svg.Point(1000 * U, -900 * U))).bbox())]
    for name, fn in forms:
        try:
            bb = fn()
        except engine.CaseTimeout:
            raise
        except Exception as e:
            dis.append({"clause": "Raises", "detail": "%s of %r raised %s" % (name, seg, type(e).__name__)})
            continue
        mn, mx = (bb[0], bb[2]) if axis == 1 else (bb[1], bb[3])
        tol = 1e-9 * U
        if mn > hi / D + tol:
            dis.append({"clause": "Containment", "detail": "%s of %r: min %r on axis %d is above the curve's lowest sample %r" % (name, seg, mn, axis, hi / D), "form": name})
        elif mn < lo / D - tol:
            dis.append({"clause": "Tightness", "detail": "%s of %r: min %r on axis %d is below every point of the curve (>= %r)" % (name, seg, mn, axis, lo / D), "form": name})
        if mx < lo2 / D - tol:
            dis.append({"clause": "Containment", "detail": "%s of %r: max %r on axis %d is below the curve's highest sample %r" % (name, seg, mx, axis, lo2 / D), "form": name})
        elif mx > hi2 / D + tol:
            dis.append({"clause": "Tightness", "detail": "%s of %r: max %r on axis %d is above every point of the curve (<= %r)" % (name, seg, mx, axis, hi2 / D), "form": name})
        if not (bb[0] <= bb[2] and bb[1] <= bb[3]):
            dis.append({"clause": "Order", "detail": "%s of %r: %r" % (name, seg, bb)})
    # the same quadratic written as a cubic (degree elevation) at coordinates of 1e4, its end nudged so that the cubic
    # coefficient is tiny but not zero: the box still contains every sampled point of the curve (comparator: 1001 samples)
    if n == 3:
        S = 1.0e4
        q = [svg.Point(p.x * S / U, p.y * S / U) for p in pts]
        for delta in (1.0017e-8, 3e-8, 1e-6, -1.0017e-8):
            c1 = svg.Point(q[0].x + 2.0 * (q[1].x - q[0].x) / 3.0, q[0].y + 2.0 * (q[1].y - q[0].y) / 3.0)
            c2 = svg.Point(q[2].x + 2.0 * (q[1].x - q[2].x) / 3.0, q[2].y + 2.0 * (q[1].y - q[2].y) / 3.0)
            e = svg.Point(q[2].x + (delta if axis == 1 else 0.0), q[2].y + (0.0 if axis == 1 else delta))
            cub = svg.CubicBezier(q[0], c1, c2, e)
            try:
                bb = cub.bbox()
            except engine.CaseTimeout:
                raise
            except Exception as ex:
                dis.append({"clause": "Raises", "detail": "bbox of near-quadratic cubic %r raised %s" % (cub, type(ex).__name__)})
                continue
            vals = [(cub.point(i / 1000.0).x if axis == 1 else cub.point(i / 1000.0).y) for i in range(1001)]
            mn, mx = (bb[0], bb[2]) if axis == 1 else (bb[1], bb[3])
            size = max(1.0, max(abs(v) for v in vals))
            if mn > min(vals) + 1e-9 * size or mx < max(vals) - 1e-9 * size:
                dis.append({"clause": "Containment", "form": "near-quadratic cubic", "detail": "bbox of %r on axis %d is [%r, %r], the curve reaches [%r, %r]" % (cub, axis, mn, mx, min(vals), max(vals))})
            elif mn < min(vals) - 1e-6 * size or mx > max(vals) + 1e-6 * size:
                dis.append({"clause": "Tightness", "form": "near-quadratic cubic", "detail": "bbox of %r on axis %d is [%r, %r], the curve stays within [%r, %r]" % (cub, axis, mn, mx, min(vals), max(vals))})
    # a zero-length closed sub-path (M x,y Z; a polygon of one point) has a position: its box is that point
    p0 = pts[0]
    for name, fn in (("Path(M, Z).bbox()", lambda: svg.Path(svg.Move(None, svg.Point(p0)), svg.Close(svg.Point(p0), svg.Point(p0))).bbox()),
                     ("Polygon(one point).bbox()", lambda: svg.Polygon((p0.x, p0.y)).bbox())):
        try:
            bb = fn()
        except engine.CaseTimeout:
            raise
        except Exception as e:
            dis.append({"clause": "Raises", "detail": "%s raised %s" % (name, type(e).__name__)})
            continue
        if bb is None or any(abs(bb[i] - (p0.x, p0.y)[i % 2]) > 1e-9 * U for i in range(4)):
            dis.append({"clause": "PointBox", "detail": "%s at %r = %r" % (name, p0, bb), "form": name})
    return dis


def side_value(sd):
    if sd[0] == "sq":
        return float(rat(sd[1])) + sd[2] * math.sqrt(float(rat(sd[3])))
    return float(rat(sd[1]))


def check_arc(case):
    c, u, v, th0, e, dirn, full = case["arg"]
    ext = math.atan2(float(rat(e[1])), float(rat(e[0]))) % (2 * math.pi)
    if full:
        ext += 2 * math.pi
    signed = dirn * ext
    U = case.get("unit", 1.0)
    cf, uf, vf = [tuple(x * U for x in c02.fpt(q)) for q in (c, u, v)]
    t0 = math.atan2(float(rat(th0[1])), float(rat(th0[0])))

    def f(t):
        th = t0 + t * signed
        return (cf[0] + uf[0] * math.cos(th) + vf[0] * math.sin(th), cf[1] + uf[1] * math.cos(th) + vf[1] * math.sin(th))
    P = svg.Point
    want = [side_value(sd) * U for sd in case["exp"]]
    scale = max(U, max(abs(w) for w in want))
    dis = []

    def mk():
        return svg.Arc(P(*f(0.0)), P(*f(1.0)), P(*cf), P(cf[0] + uf[0], cf[1] + uf[1]), P(cf[0] + vf[0], cf[1] + vf[1]), signed)
    forms = [("arc.bbox()", lambda: mk().bbox()),
             ("Path(M, arc).bbox()", lambda: svg.Path(svg.Move(None, P(*f(0.0))), mk()).bbox()),
             ("(Path(M, arc) * translate(7,-2)).bbox() shifted back", lambda: tuple(
                 b - o for b, o in zip((svg.Path(svg.Move(None, P(*f(0.0))), mk()) * svg.Matrix.translate(7 * U, -2 * U)).bbox(), (7 * U, -2 * U, 7 * U, -2 * U))))]
    if not full:
        forms.append(("reversed arc bbox", lambda: svg.Arc(P(*f(1.0)), P(*f(0.0)), P(*cf), P(cf[0] + uf[0], cf[1] + uf[1]), P(cf[0] + vf[0], cf[1] + vf[1]), -signed).bbox()))

    def asked_then_mirrored():
        # the box of an object that was asked for its box BEFORE it was mapped in place (here: mirrored twice, back onto itself)
        a = mk()
        a.bbox()
        a *= svg.Matrix.scale(-1, 1)
        b1 = a.bbox()
        a *= svg.Matrix.scale(-1, 1)
        b2 = a.bbox()
        if any(abs(x - y) > 1e-9 * max(U, abs(x)) for x, y in zip(b1, (-b2[2], b2[1], -b2[0], b2[3]))):
            raise AssertionError("box after the first mirror %r is not the mirror image of the box after the second %r" % (b1, b2))
        return b2

    def asked_then_reversed():
        a = mk()
        a.bbox()
        a.reverse()
        return a.bbox()
    forms += [("arc.bbox(); arc *= mirror; arc *= mirror; arc.bbox()", asked_then_mirrored), ("arc.bbox(); arc.reverse(); arc.bbox()", asked_then_reversed)]
    for name, fn in forms:
        try:
            bb = fn()
        except engine.CaseTimeout:
            raise
        except Exception as ex:
            dis.append({"clause": "Raises", "detail": "%s raised %s: %s" % (name, type(ex).__name__, str(ex)[:60])})
            continue
        for i, nm in enumerate(("xmin", "ymin", "xmax", "ymax")):
            if abs(bb[i] - want[i]) > 1e-9 * scale:
                kind = "Containment" if (i < 2 and bb[i] > want[i]) or (i >= 2 and bb[i] < want[i]) else "Tightness"
                dis.append({"clause": "Arc" + kind, "side": nm, "form": name,
                            "detail": "%s: %s = %r, expected %r (%s)  [arc centre %s axes %s %s from %.4f rad over %.4f rad]" % (
                                name, nm, bb[i], want[i], case["exp"][i][0], cf, uf, vf, t0, signed)})
        if not (bb[0] <= bb[2] and bb[1] <= bb[3]):
            dis.append({"clause": "Order", "detail": "%s: %r" % (name, bb)})
    # the zero-extent arc on the same ellipse (sweep 0 at the start point): its box is that point
    s0 = f(0.0)

    def mk0():
        return svg.Arc(P(*s0), P(*s0), P(*cf), P(cf[0] + uf[0], cf[1] + uf[1]), P(cf[0] + vf[0], cf[1] + vf[1]), 0)
    for name, fn in (("zero-extent arc.bbox()", lambda: mk0().bbox()),
                     ("Path(M, zero-extent arc).bbox()", lambda: svg.Path(svg.Move(None, P(*s0)), mk0()).bbox())):
        try:
            bb = fn()
        except engine.CaseTimeout:
            raise
        except Exception as ex:
            dis.append({"clause": "Raises", "detail": "%s raised %s: %s" % (name, type(ex).__name__, str(ex)[:60])})
            continue
        if bb is None or any(abs(bb[i] - s0[i % 2]) > 1e-9 * scale for i in range(4)):
            dis.append({"clause": "ZeroExtentArc", "form": name, "detail": "%s = %r, the arc is the single point %r  [arc centre %s axes %s %s]" % (name, bb, s0, cf, uf, vf)})
    return dis


def check_cont(case):
    cont, stroke, sw, k, ws, tr = case["arg"]
    want = [float(rat(x)) for x in case["exp"]]
    kf, swf = float(rat(k)), float(rat(sw))
    kw = {"stroke_width": swf}
    if stroke != "unset":
        kw["stroke"] = stroke
    tf = svg.Matrix.scale(kf)

    def rect(**extra):
        return svg.Rect(1, 2, 30, 40, **dict(kw, **extra))

    def path(**extra):
        return svg.Path("M0,0 L10,5 L-4,8 z M20,20 L26,23", **extra)
    if cont == "use_group":
        import io
        xml = ('<svg xmlns="http://www.w3.org/2000/svg" xmlns:xlink="http://www.w3.org/1999/xlink" width="500" height="500">'
               '<defs><g id="g"><rect x="1" y="2" width="30" height="40" stroke-width="%r"%s/>'
               '<path d="M0,0 L10,5 L-4,8 z M20,20 L26,23" stroke="red" stroke-width="2"/></g></defs>'
               '<use xlink:href="#g" x="10" y="20" transform="scale(%r)"/></svg>') % (
                   swf, "" if stroke == "unset" else ' stroke="%s"' % stroke, kf)
        try:
            doc = svg.SVG.parse(io.StringIO(xml), reify=False)
            obj = [e for e in doc.elements() if isinstance(e, svg.Use)][0]
        except engine.CaseTimeout:
            raise
        except Exception as e:
            return [{"clause": "Raises", "detail": "parse of %s raised %s" % (xml, type(e).__name__)}]
    elif cont == "use":
        import io
        xml = ('<svg xmlns="http://www.w3.org/2000/svg" xmlns:xlink="http://www.w3.org/1999/xlink" width="500" height="500">'
               '<defs><rect id="r" x="1" y="2" width="30" height="40" stroke-width="%r"%s/></defs>'
               '<use xlink:href="#r" x="10" y="20" transform="scale(%r)"/></svg>') % (
                   swf, "" if stroke == "unset" else ' stroke="%s"' % stroke, kf)
        try:
            doc = svg.SVG.parse(io.StringIO(xml), reify=False)
            obj = [e for e in doc.elements() if isinstance(e, svg.Use)][0]
        except engine.CaseTimeout:
            raise
        except Exception as e:
            return [{"clause": "Raises", "detail": "parse of %s raised %s" % (xml, type(e).__name__)}]
    elif cont == "circle":
        obj = svg.Circle(5, 6, 7, transform=tf, **kw)
    elif cont == "ellipse":
        obj = svg.Ellipse(5, 6, 7, 3, transform=tf, **kw)
    elif cont == "ellipse_rot":
        obj = svg.Ellipse(5, 6, 7, 3, transform=svg.Matrix("rotate(90)") * tf, **kw)
    elif cont == "polyline":
        obj = svg.Polyline((0, 0), (3, 4), (6, 1), (-2, 7), transform=tf, **kw)
    elif cont == "polygon":
        obj = svg.Polygon((0, 0), (3, 4), (6, 1), (-2, 7), transform=tf, **kw)
    elif cont == "line":
        obj = svg.SimpleLine(1, 2, 3, 5, transform=tf, **kw)
    elif cont == "rect":
        obj = rect(transform=tf)
    elif cont == "path":
        obj = path(transform=tf, **kw)
    elif cont == "subpath":
        obj = path(transform=tf, **kw).subpath(0)
    elif cont == "subpath_open":
        obj = path(transform=tf, **kw).subpath(1)
    elif cont == "group":
        obj = svg.Group(transform=tf)
        obj.append(rect(transform=tf))
        obj.append(path(transform=tf, stroke="red", stroke_width=2.0))
    else:
        obj = svg.Group(transform=tf)
        inner = svg.Group(transform=tf)
        inner.append(rect(transform=tf))
        obj.append(inner)
        obj.append(path(transform=tf, stroke="red", stroke_width=2.0))
    if cont in ("rect", "path", "circle", "polyline", "line") and swf == int(swf):
        # the same width assigned to the attribute as an int / as a Length in px (the types the attribute also takes)
        obj.stroke_width = [int(swf), svg.Length("%dpx" % int(swf)), swf][int(kf * 2 + swf) % 3]
    what = "%s(stroke=%s, stroke_width=%s, scale(%s)).bbox(transformed=%s, with_stroke=%s)" % (cont, stroke, swf, kf, tr, ws)
    try:
        bb = obj.bbox(transformed=tr, with_stroke=ws)
    except engine.CaseTimeout:
        raise
    except Exception as e:
        return [{"clause": "Raises", "detail": "%s raised %s: %s" % (what, type(e).__name__, str(e)[:60])}]
    if bb is None or any(abs(g - w) > 1e-9 * max(1.0, abs(w)) for g, w in zip(bb, want)):
        return [{"clause": "ContainerBox", "detail": "%s = %r, expected %r" % (what, bb, want), "container": cont, "stroke": stroke, "transformed": tr, "with_stroke": ws}]
    return []


def check_case(case):
    dis = {"bez": check_bez, "arc": check_arc, "cont": check_cont}[case["kind"]](case)
    for d in dis:
        d["kind"] = case["kind"]
    return {"dis": dis, "nontrivial": True, "class": case["kind"], "checked": ["Containment", "Tightness", "Order"]}


UNITS = [1e-3, 12345.0, 1e5, 0.37, 1.0 / 64]


def cases_from_dump(path, seed=0):
    n = 0
    for st in engine.read_dump(path):
        n += 1
        case = {"kind": st["kind"], "arg": st["arg"], "exp": st["exp"]}
        yield case
        if st["kind"] in ("bez", "arc") and n % 2 == 0:
            yield dict(case, unit=UNITS[(n // 2 + seed) % len(UNITS)])


def run(tier, seed):
    run = engine.Run("C08", tier, seed)
    work = engine.workdir("C08")
    try:
        consts = {"V": 4, "Full": "FALSE"} if tier == "quick" else {"V": 6, "Full": "TRUE"}
        res = engine.run_tlc(work, "MC_C08", constants=consts, invariants=["Sane", "ArcSidesOutside"], timeout=3000)
        run.add_tlc(res, "BBox brackets / arc sides / containers, %s" % consts)
        n = 0
        for case, r in engine.replay("harness.c08", cases_from_dump(res["dump"], seed), chunk=100):
            run.record(case, r, key=str(case["arg"]) + str(case.get("unit", "")))
            if n % 500 == 5:
                run.sample(case)
            n += 1
        run.extra["exhaustive"] = True
    finally:
        engine.cleanup(work)
    run.rule = ("cases = initial states of MC_C08: all 1-D control tuples over 0..V for quadratics and cubics on either axis (0, 1 or 2 interior extrema, "
                "degenerate and near-linear), lattice arcs (rotations x radii x 8 start angles x 9 extents x both directions, and beyond a full turn), "
                "containers x stroke painted/none/unset x widths x scales x transformed x with_stroke")
    run.assumptions = ["Bezier sides are decided up to eps = max|B''|/(8*128^2) <= 1.1e-3 (tightness finer than that is not decided)",
                       "arc sides compared to 1e-9 x size with sqrt of the exact squared half extent"]
    return run.finish()


def replay_case(case):
    worker_init()
    return check_case(case)
